"""Runs `python -m xandikos` with a file-system audit hook installed first.

usage: hooked_main.py <event-log> <watched-prefix>[:<watched-prefix>...] -- <xandikos args>
The hook lives in the harness (nothing in /repo is changed); it only observes.
"""

import os
import runpy
import sys

here = os.path.dirname(os.path.abspath(__file__))
# the script directory must not be on sys.path (xv/core/http.py would shadow the stdlib http package)
sys.path[:] = [p for p in sys.path if os.path.abspath(p or ".") != here]
sys.path.insert(0, os.path.dirname(os.path.dirname(here)))
from xv.core import fsaudit  # noqa: E402

log = sys.argv[1]
watched = sys.argv[2].split(":")
rest = sys.argv[sys.argv.index("--") + 1:]
fd = os.open(log, os.O_WRONLY | os.O_CREAT | os.O_APPEND, 0o600)
mon = fsaudit.Monitor(watched, sink=fd)
mon.recording = True
sys.addaudithook(mon.hook)
sys.argv = ["xandikos"] + rest
runpy.run_module("xandikos", run_name="__main__")
