"""Independent evaluator for CALDAV:calendar-query filters (RFC 4791 sections 9.7 and 9.9).

Written from the RFC, not from xandikos; imports nothing from `icalendar`.
Works on the component tree of xv.core.ical.

Filters are plain data and can be rendered to XML:

  comp(name, not_defined=False, time_range=None, props=[...], comps=[...])
  prop(name, not_defined=False, time_range=None, text=None, params=[...])
  param(name, not_defined=False, text=None)
  text = (needle, collation or None, negate)
  time_range = (start or None, end or None)     # aware UTC datetimes

RFC 4791 9.9, reproduced here row by row (start/end are the bounds of the
CALDAV:time-range; a missing bound is -infinity / +infinity):

VEVENT   DTEND DUR  DUR>0 DTSTART-is-DATE-TIME   condition
  row E1   Y    N    N      *      start <  DTEND            AND end > DTSTART
  row E2   N    Y    Y      *      start <  DTSTART+DURATION AND end > DTSTART
  row E3   N    Y    N      *      start <= DTSTART          AND end > DTSTART
  row E4   N    N    N      Y      start <= DTSTART          AND end > DTSTART
  row E5   N    N    N      N      start <  DTSTART+P1D      AND end > DTSTART

VTODO    DTSTART DURATION DUE COMPLETED CREATED
  row T1   Y  Y  N  *  *   start <= DTSTART+DURATION AND (end > DTSTART OR end >= DTSTART+DURATION)
  row T2   Y  N  Y  *  *   (start < DUE OR start <= DTSTART) AND (end > DTSTART OR end >= DUE)
  row T3   Y  N  N  *  *   start <= DTSTART AND end > DTSTART
  row T4   N  N  Y  *  *   start < DUE AND end >= DUE
  row T5   N  N  N  Y  Y   (start <= CREATED OR start <= COMPLETED) AND (end >= CREATED OR end >= COMPLETED)
  row T6   N  N  N  Y  N   start <= COMPLETED AND end >= COMPLETED
  row T7   N  N  N  N  Y   end > CREATED
  row T8   N  N  N  N  N   TRUE

VJOURNAL DTSTART DTSTART-is-DATE-TIME
  row J1   Y  Y   start <= DTSTART     AND end > DTSTART
  row J2   Y  N   start <  DTSTART+P1D AND end > DTSTART
  row J3   N  *   FALSE

VFREEBUSY  DTSTART+DTEND  FREEBUSY
  row F1   Y  *   start <= DTEND AND end > DTSTART
  row F2   N  Y   some period: start < period-end AND end > period-start
  row F3   N  N   FALSE

DATE values and floating DATE-TIME values are taken in the default time zone
(the CALDAV:timezone of the request, else the server's zone).
"""

import datetime as _dt
import re
from xml.sax.saxutils import escape, quoteattr
from zoneinfo import ZoneInfo

from . import ical

UTC = _dt.timezone.utc
NEG_INF = _dt.datetime(1, 1, 1, tzinfo=UTC)
POS_INF = _dt.datetime(9999, 12, 31, 23, 59, 59, tzinfo=UTC)


# -- filter constructors ----------------------------------------------------


def comp(name, not_defined=False, time_range=None, props=(), comps=()):
    return ("comp", name, not_defined, time_range, tuple(props), tuple(comps))


def prop(name, not_defined=False, time_range=None, text=None, params=()):
    return ("prop", name, not_defined, time_range, text, tuple(params))


def param(name, not_defined=False, text=None):
    return ("param", name, not_defined, text)


def fmt_utc(dt):
    return dt.astimezone(UTC).strftime("%Y%m%dT%H%M%SZ")


def _tr_xml(tr):
    a = ""
    if tr[0] is not None:
        a += ' start="%s"' % fmt_utc(tr[0])
    if tr[1] is not None:
        a += ' end="%s"' % fmt_utc(tr[1])
    return "<C:time-range%s/>" % a


def _text_xml(t):
    needle, coll, neg = t
    a = ""
    if coll is not None:
        a += " collation=%s" % quoteattr(coll)
    if neg:
        a += ' negate-condition="yes"'
    return "<C:text-match%s>%s</C:text-match>" % (a, escape(needle))


def to_xml(f):
    k = f[0]
    if k == "comp":
        _, name, nd, tr, props, comps = f
        inner = ""
        if nd:
            inner += "<C:is-not-defined/>"
        if tr is not None:
            inner += _tr_xml(tr)
        inner += "".join(to_xml(p) for p in props)
        inner += "".join(to_xml(c) for c in comps)
        return "<C:comp-filter name=%s>%s</C:comp-filter>" % (quoteattr(name), inner)
    if k == "prop":
        _, name, nd, tr, text, params = f
        inner = ""
        if nd:
            inner += "<C:is-not-defined/>"
        if tr is not None:
            inner += _tr_xml(tr)
        if text is not None:
            inner += _text_xml(text)
        inner += "".join(to_xml(p) for p in params)
        return "<C:prop-filter name=%s>%s</C:prop-filter>" % (quoteattr(name), inner)
    if k == "param":
        _, name, nd, text = f
        inner = ""
        if nd:
            inner += "<C:is-not-defined/>"
        if text is not None:
            inner += _text_xml(text)
        return "<C:param-filter name=%s>%s</C:param-filter>" % (quoteattr(name), inner)
    raise ValueError(f)


# -- values -----------------------------------------------------------------

_DUR_RE = re.compile(r"^([+-])?P(?:(\d+)W)?(?:(\d+)D)?(?:T(?:(\d+)H)?(?:(\d+)M)?(?:(\d+)S)?)?$")


def parse_duration(v):
    m = _DUR_RE.match(v.strip())
    if not m:
        raise ValueError("bad duration %r" % v)
    sign, w, d, h, mi, s = m.groups()
    td = _dt.timedelta(weeks=int(w or 0), days=int(d or 0), hours=int(h or 0), minutes=int(mi or 0), seconds=int(s or 0))
    return -td if sign == "-" else td


def is_date(p):
    if "DATE" in [x.upper() for x in p.params.get("VALUE", [])]:
        return True
    return re.match(r"^\d{8}$", p.value.strip()) is not None


def to_instant(p, default_tz, value=None):
    """Property (DATE / DATE-TIME, UTC / floating / TZID) -> aware UTC datetime."""
    v = (value if value is not None else p.value).strip()
    if re.match(r"^\d{8}$", v):
        d = _dt.datetime.strptime(v, "%Y%m%d")
        return d.replace(tzinfo=default_tz).astimezone(UTC)
    m = re.match(r"^(\d{8}T\d{6})(Z)?$", v)
    if not m:
        raise ValueError("bad date-time %r" % v)
    d = _dt.datetime.strptime(m.group(1), "%Y%m%dT%H%M%S")
    if m.group(2):
        return d.replace(tzinfo=UTC)
    tzid = p.params.get("TZID")
    if tzid:
        return d.replace(tzinfo=ZoneInfo(tzid[0])).astimezone(UTC)
    return d.replace(tzinfo=default_tz).astimezone(UTC)


def local_dt(p, default_tz, value=None):
    """Property -> aware datetime in ITS OWN zone (UTC for Z, the TZID zone, else the default zone)."""
    v = (value if value is not None else p.value).strip()
    if re.match(r"^\d{8}$", v):
        return _dt.datetime.strptime(v, "%Y%m%d").replace(tzinfo=default_tz)
    m = re.match(r"^(\d{8}T\d{6})(Z)?$", v)
    d = _dt.datetime.strptime(m.group(1), "%Y%m%dT%H%M%S")
    if m.group(2):
        return d.replace(tzinfo=UTC)
    tzid = p.params.get("TZID")
    return d.replace(tzinfo=ZoneInfo(tzid[0]) if tzid else default_tz)


def plus(p, default_tz, td):
    """Instant of p + duration: weeks and days are nominal (same wall-clock time on a later day in p's zone, RFC 5545
    3.3.6 / 3.8.2.5), hours, minutes and seconds are exact."""
    whole = _dt.timedelta(days=td.days)
    rest = td - whole
    return (local_dt(p, default_tz) + whole).astimezone(UTC) + rest


# -- section 9.9 ------------------------------------------------------------


def time_range_row(c):
    """Which row of the 9.9 tables applies (for reporting)."""
    has = lambda n: c.get(n) is not None
    if c.name == "VEVENT":
        if has("DTEND"):
            return "E1"
        if has("DURATION"):
            return "E2" if parse_duration(c.get("DURATION").value) > _dt.timedelta(0) else "E3"
        return "E5" if is_date(c.get("DTSTART")) else "E4"
    if c.name == "VTODO":
        if has("DTSTART"):
            if has("DURATION") and not has("DUE"):
                return "T1"
            if has("DUE") and not has("DURATION"):
                return "T2"
            return "T3"
        if has("DUE"):
            return "T4"
        if has("COMPLETED") and has("CREATED"):
            return "T5"
        if has("COMPLETED"):
            return "T6"
        if has("CREATED"):
            return "T7"
        return "T8"
    if c.name == "VJOURNAL":
        if not has("DTSTART"):
            return "J3"
        return "J2" if is_date(c.get("DTSTART")) else "J1"
    if c.name == "VFREEBUSY":
        if has("DTSTART") and has("DTEND"):
            return "F1"
        return "F2" if has("FREEBUSY") else "F3"
    return "?"


def comp_overlaps(c, tr, default_tz):
    start = tr[0] if tr[0] is not None else NEG_INF
    end = tr[1] if tr[1] is not None else POS_INF
    row = time_range_row(c)
    inst = lambda n: to_instant(c.get(n), default_tz)
    day = _dt.timedelta(days=1)
    if row == "E1":
        return start < inst("DTEND") and end > inst("DTSTART")
    if row == "E2":
        return start < plus(c.get("DTSTART"), default_tz, parse_duration(c.get("DURATION").value)) and end > inst("DTSTART")
    if row in ("E3", "E4"):
        return start <= inst("DTSTART") and end > inst("DTSTART")
    if row == "E5":
        return start < plus(c.get("DTSTART"), default_tz, day) and end > inst("DTSTART")
    if row == "T1":
        e = plus(c.get("DTSTART"), default_tz, parse_duration(c.get("DURATION").value))
        return start <= e and (end > inst("DTSTART") or end >= e)
    if row == "T2":
        return (start < inst("DUE") or start <= inst("DTSTART")) and (end > inst("DTSTART") or end >= inst("DUE"))
    if row == "T3":
        return start <= inst("DTSTART") and end > inst("DTSTART")
    if row == "T4":
        return start < inst("DUE") and end >= inst("DUE")
    if row == "T5":
        return (start <= inst("CREATED") or start <= inst("COMPLETED")) and (end >= inst("CREATED") or end >= inst("COMPLETED"))
    if row == "T6":
        return start <= inst("COMPLETED") and end >= inst("COMPLETED")
    if row == "T7":
        return end > inst("CREATED")
    if row == "T8":
        return True
    if row == "J1":
        return start <= inst("DTSTART") and end > inst("DTSTART")
    if row == "J2":
        return start < plus(c.get("DTSTART"), default_tz, day) and end > inst("DTSTART")
    if row == "J3":
        return False
    if row == "F1":
        return start <= inst("DTEND") and end > inst("DTSTART")
    if row == "F2":
        for p in c.getall("FREEBUSY"):
            for per in p.value.split(","):
                a, b = per.split("/")
                ps = to_instant(p, default_tz, a)
                pe = ps + parse_duration(b) if b.startswith(("P", "+P", "-P")) else to_instant(p, default_tz, b)
                if start < pe and end > ps:
                    return True
        return False
    if row == "F3":
        return False
    return False


# -- section 9.7 ------------------------------------------------------------


def text_matches(t, value):
    """9.7.5: substring match under the collation; negate-condition inverts."""
    needle, coll, neg = t
    coll = coll or "i;ascii-casemap"
    if coll == "i;octet":
        r = needle in value
    elif coll == "i;ascii-casemap":
        up = lambda s: "".join(chr(ord(ch) - 32) if "a" <= ch <= "z" else ch for ch in s)
        r = up(needle) in up(value)
    elif coll == "i;unicode-casemap":
        r = needle.casefold() in value.casefold()
    else:
        raise ValueError("unsupported collation %s" % coll)
    return (not r) if neg else r


def param_matches(f, p):
    _, name, nd, text = f
    vals = p.params.get(name.upper())
    if nd:
        return vals is None
    if vals is None:
        return False
    if text is not None:
        return any(text_matches(text, v) for v in vals) if not text[2] else all(text_matches(text, v) for v in vals)
    return True


def prop_matches(f, c, default_tz):
    _, name, nd, tr, text, params = f
    ps = c.getall(name.upper())
    if nd:
        return not ps
    if not ps:
        return False
    for p in ps:
        ok = True
        if tr is not None:
            start = tr[0] if tr[0] is not None else NEG_INF
            end = tr[1] if tr[1] is not None else POS_INF
            v = to_instant(p, default_tz)
            # boundary equality is not generated (see DESIGN.md); strict inside/outside only
            if not (start < v < end):
                ok = False
        if ok and text is not None and not text_matches(text, ical.unescape_text(p.value)):
            ok = False
        if ok and not all(param_matches(pf, p) for pf in params):
            ok = False
        if ok:
            return True
    return False


def comp_matches_here(f, c, default_tz):
    """f targets component c itself (names already equal)."""
    _, name, nd, tr, props, comps = f
    if tr is not None and not comp_overlaps(c, tr, default_tz):
        return False
    for pf in props:
        if not prop_matches(pf, c, default_tz):
            return False
    for cf in comps:
        if not comp_matches_scope(cf, c.subs, default_tz):
            return False
    return True


def comp_matches_scope(f, scope, default_tz):
    """f is evaluated in a scope (list of sibling components)."""
    _, name, nd, tr, props, comps = f
    same = [c for c in scope if c.name == name.upper()]
    if nd:
        return not same
    return any(comp_matches_here(f, c, default_tz) for c in same)


def matches(filter_root, data, default_tz=UTC):
    """filter_root is the comp-filter for VCALENDAR; data is the stored object."""
    cal = ical.parse_calendar(data)
    return comp_matches_scope(filter_root, [cal], default_tz)
