"""The DAV system under exploration: real server + boring reference model + oracles.

Used by C01, C02, C03(part), C06, C07, C08, C09, C15, C17: the same exploration
code with different alphabets, audit features and oracle sets switched on.
"""

import hashlib
import os
import posixpath
import shutil
import subprocess
import urllib.parse

from . import bodies as B
from . import dav, env, http, ical

COLL_PATHS = {
    "cal": "/user/calendars/calendar/",
    "ab": "/user/contacts/addressbook/",
    "c2": "/user/calendars/c2/",
    "nope": "/user/calendars/nope/",
}
COLL_KIND = {"cal": "calendar", "ab": "addressbook", "c2": "calendar"}

AUDIT_PROPS = [
    dav.P_GETETAG, dav.P_RESOURCETYPE, dav.P_CTAG_CS, dav.P_CTAG_DAV, dav.P_SYNCTOKEN,
    dav.P_DISPLAYNAME, dav.P_CALDESC, dav.P_CALCOLOR, dav.P_CALORDER, dav.P_ABDESC, dav.P_ABCOLOR, dav.P_COMMENT,
]
PROP_TAGS = {
    "displayname": dav.P_DISPLAYNAME,
    "caldesc": dav.P_CALDESC,
    "calcolor": dav.P_CALCOLOR,
    "calorder": dav.P_CALORDER,
    "abdesc": dav.P_ABDESC,
    "abcolor": dav.P_ABCOLOR,
    "comment": dav.P_COMMENT,
}


def git_blob_id(data):
    return hashlib.sha1(b"blob %d\x00" % len(data) + data).hexdigest()


def sha(data):
    return hashlib.sha1(data).hexdigest()[:16]


def nl(data):
    """XML transport normalises CRLF to LF in text nodes; compare report data modulo that."""
    return data.replace(b"\r\n", b"\n")


def _run_git(path, *args):
    e = dict(os.environ)
    e.update({"GIT_CONFIG_NOSYSTEM": "1", "GIT_CONFIG_GLOBAL": "/dev/null", "LC_ALL": "C"})
    p = subprocess.run(["git", "-C", path, "-c", "safe.directory=*"] + list(args), stdout=subprocess.PIPE, stderr=subprocess.PIPE, env=e)
    return p.returncode, p.stdout, p.stderr


def build_root(root, backend="tree", metadata="file"):
    """Create principal + default collections with the code under test, like --defaults."""
    from xandikos.web import XandikosBackend

    be = XandikosBackend(root)
    be._mark_as_principal("/user/")
    be.create_principal("/user/", create_defaults=True)
    if backend == "bare":
        from xandikos.store.git import BareGitStore

        for c in ("cal", "ab"):
            p = os.path.join(root, COLL_PATHS[c].strip("/"))
            shutil.rmtree(p)
            st = BareGitStore.create(p)
            st.set_type(COLL_KIND[c])
    if metadata == "config":
        # collections whose metadata lives in the [xandikos] section of .git/config
        import dulwich.repo

        for c in ("cal", "ab"):
            p = os.path.join(root, COLL_PATHS[c].strip("/"))
            r = dulwich.repo.Repo(p)
            cfg = r.get_config()
            cfg.set(b"xandikos", b"type", COLL_KIND[c].encode())
            cfg.write_to_path()
    http.clear_store_caches()


_TEMPLATES = {}


def template_root(backend, metadata="file"):
    """Build the initial root once per process and copy it for every world (20 ms -> 3 ms)."""
    k = (backend, metadata, os.getpid())
    t = _TEMPLATES.get(k)
    if t is None:
        t = env.fresh_dir("tmpl")
        os.rmdir(t)
        os.mkdir(t)
        build_root(t, backend, metadata)
        _TEMPLATES[k] = t
    return t


class Config:
    def __init__(self, front="wsgi", backend="tree", prefix="/", threshold=None, metadata="file",
                 features=(), names=None, bodies=None, ops=None, props=None, oracles=(), label=None, ct_for=None):
        self.front = front
        self.backend = backend
        self.prefix = prefix if prefix.endswith("/") else prefix + "/"
        self.threshold = threshold
        self.metadata = metadata
        self.features = set(features)
        self.names = names or {"cal": ["a.ics", "b.ics"], "ab": ["a.vcf"], "c2": ["a.ics"]}
        self.bodies = bodies or {"cal": ["X", "X2", "Z", "BAD"], "ab": ["K", "L"], "c2": ["X", "Z"]}
        self.ops = ops  # callable(model, cfg) -> list of ops, or None for default
        self.props = props or {}
        self.oracles = set(oracles)
        self.ct_for = ct_for or {}  # body id -> media type it is uploaded with (default: by the extension of the name)
        self.label = label or "%s/%s%s%s" % (backend, front, "" if self.prefix == "/" else "@" + self.prefix, "" if metadata == "file" else "+cfgmeta")


class DavSys:
    """One world + its model.  apply(op) executes on the real server, audits, checks oracles."""

    def __init__(self, cfg):
        self.cfg = cfg
        self.root = env.fresh_dir("root")
        os.rmdir(self.root)
        shutil.copytree(template_root(cfg.backend, cfg.metadata), self.root, symlinks=True)
        if cfg.front == "wsgi":
            self.world = http.WsgiWorld(self.root, prefix=cfg.prefix, index_threshold=cfg.threshold)
        elif cfg.front == "aio":
            self.world = http.AioWorld(self.root, prefix=cfg.prefix, index_threshold=cfg.threshold)
        elif cfg.front == "proc":
            self.world = http.ProcWorld(self.root, prefix=cfg.prefix, index_threshold=cfg.threshold)
        else:
            raise ValueError(cfg.front)
        if "slow-body" in cfg.features:
            self.world.slow_body = 0.04
        if "nested" in cfg.features:
            # part of the initial state: a plain collection inside the calendar, holding a member that has the NAME of a
            # top-level member of the alphabet but other content
            base = cfg.prefix.rstrip("/") + COLL_PATHS["cal"]
            self.world.request("MKCOL", base + "sub/")
            self.world.request("PUT", base + "sub/a.ics", {"Content-Type": B.CT_ICS}, B.ics("uid-nested", "nested member"))
        self.world_b = None
        self._via_b = False
        self.diverged = False  # two workers: set once they disagree; everything after that is a consequence and is not judged again
        if "two-workers" in cfg.features:
            # a second worker process on the same directory, requests strictly one after another
            assert cfg.front == "wsgi"
            self.world_b = http.WsgiWorld(self.root, prefix=cfg.prefix, index_threshold=cfg.threshold, own_cache=True)
        self.model = {
            "cal": {"kind": "calendar", "members": {}, "props": {}},
            "ab": {"kind": "addressbook", "members": {}, "props": {}},
            "c2": None,
        }
        self.gen = {}  # actual generated name -> placeholder
        self.vios = {}
        self.obs = []
        self.nreq = 0
        self.hist = []
        self.last_audit = None
        self.tokens = []  # (step, coll, token, snapshot of members->etag)
        self.commits_seen = {}  # coll -> set of commit ids
        self.closed = False

    # -- plumbing ---------------------------------------------------------

    def url(self, coll, name=None):
        p = self.cfg.prefix.rstrip("/") + COLL_PATHS[coll]
        if name is not None:
            p += urllib.parse.quote(name)
        return p

    pending_fault = None  # k: make the k-th mutating file-system call of the NEXT write request fail (ENOSPC)
    last_fault = None

    def req(self, method, target, headers=None, body=b""):
        self.nreq += 1
        if self._via_b:
            return self.world_b.request(method, target, headers, body)
        if self.pending_fault is not None and method in ("PUT", "DELETE", "POST", "PROPPATCH", "MKCOL", "MKCALENDAR"):
            from . import sched

            k, self.pending_fault = self.pending_fault, None
            with sched.FaultInjector(self.root, k) as inj:
                r = self.world.request(method, target, headers, body)
            self.last_fault = {"k": k, "fired": inj.fired, "mutating_calls": inj.count}
            return r
        return self.world.request(method, target, headers, body)

    def close(self):
        if not self.closed:
            self.closed = True
            try:
                if self.world_b is not None:
                    self.world_b.close()
                self.world.close()
            finally:
                shutil.rmtree(self.root, ignore_errors=True)

    def take_violations(self):
        v, self.vios = self.vios, {}
        return v

    def take_observations(self):
        o, self.obs = self.obs, []
        return o

    def take_request_count(self):
        n, self.nreq = self.nreq, 0
        return n

    recording = True

    def violation(self, prop, what, summary, detail=None):
        if not self.recording:
            return
        sig = "%s|%s|%s" % (prop, self.cfg.label, what)
        w = {"config": self.cfg.label, "history": [list(o) for o in self.hist], "detail": detail}
        e = self.vios.get(sig)
        if e is None:
            self.vios[sig] = {"summary": summary, "witness": w, "count": 1}
        else:
            e["count"] += 1

    # -- canonical forms --------------------------------------------------

    def canon_name(self, name):
        return self.gen.get(name, name)

    def body_class(self, coll, data):
        for bid in self.cfg.bodies.get(coll, []):
            if B.ALL_BODIES[bid] == data:
                return bid
        for bid, b in B.ALL_BODIES.items():
            if b == data:
                return bid
        return "sha:" + sha(data)

    def model_canon(self):
        out = []
        for c in sorted(self.model):
            m = self.model[c]
            if m is None:
                out.append((c, None))
                continue
            mem = tuple(sorted((self.canon_name(n), self.body_class(c, b)) for n, b in m["members"].items()))
            props = tuple(sorted(m["props"].items())) + tuple(("member-prop:" + k, v) for k, v in sorted((m.get("mprops") or {}).items()))
            out.append((c, m["kind"], mem, props))
        return tuple(out)

    def key(self):
        fp = self.world.fingerprint()
        for actual, ph in self.gen.items():
            fp = fp.replace(actual, ph)
        return (self.model_canon(), hashlib.sha1(fp.encode("utf-8", "replace")).hexdigest())

    # -- alphabet ---------------------------------------------------------

    def enabled_ops(self):
        if self.cfg.ops is not None:
            return self.cfg.ops(self)
        return default_ops(self)

    # -- execution --------------------------------------------------------

    def replay(self, hist):
        if self.last_audit is None:
            self.last_audit = self.audit()
            self.initial_audit = self.last_audit
            if "sync" in self.cfg.features:
                self.recording = False
                self.sync_step(("init",), self.last_audit)
                self.recording = True
        for op in hist:
            info = self.apply(tuple(op), check=False)

    def resolve_name(self, coll, name):
        if name.startswith("@gen:"):
            for actual, ph in self.gen.items():
                if ph == name[1:] and self.model[coll] and actual in self.model[coll]["members"]:
                    return actual
            return "never-generated.ics"
        return name

    def apply(self, op, check=True):
        op = tuple(op)
        if self.last_audit is None:
            self.last_audit = self.audit()
        fault_k = None
        full_op = op
        if op[0] == "burst":
            # two writes back to back with NO read in between (the audit after every step would otherwise always intervene);
            # only the model-equality part of the oracles applies to the pair
            self._no_audit = True
            try:
                i1 = self.apply(tuple(op[1]), check=False)
            finally:
                self._no_audit = False
            self.hist.pop()
            self._burst = True
            try:
                info = self.apply(tuple(op[2]), check=check)
            finally:
                self._burst = False
            self.hist.pop()
            self.hist.append(full_op)
            info["outcome"] = "burst:%s+%s" % (i1.get("outcome"), info.get("outcome"))
            info["success"] = bool(i1.get("success") or info.get("success"))
            return info
        if op[0] == "b":
            # the same request, handled by the second worker
            op = tuple(op[1])
            self._via_b = True
        if op[0] == "fault":
            fault_k = op[1]
            op = tuple(op[2])
            self.pending_fault = fault_k
            self.last_fault = None
        prev = self.last_audit
        kind = op[0]
        info = {"outcome": kind + ":?", "success": False}
        target_coll = None
        target_name = None
        resp = None
        model_before = self.model_canon()
        if kind == "put":
            _, coll, name, bid = op[:4]
            cond = op[4] if len(op) > 4 else None
            name = self.resolve_name(coll, name)
            target_coll, target_name = coll, name
            body = B.ALL_BODIES[bid]
            headers = {"Content-Type": self.cfg.ct_for.get(bid) or B.content_type_for(name)}
            if headers["Content-Type"] == "(none)":
                headers = {}
            if cond:
                hname, hval = self.cond_header(coll, name, cond, prev)
                headers[hname] = hval
            resp = self.req("PUT", self.url(coll, name), headers, body)
            st = dav.effective_status(resp)
            info["status"] = st
            if st in (200, 201, 204):
                info["success"] = True
                if self.model.get(coll) is not None:
                    self.model[coll]["members"][name] = body
                else:
                    self.violation("C01", "write-acknowledged-on-missing-collection", "PUT into a collection that does not exist was acknowledged", {"op": op, "status": st})
                info["put_etag"] = resp.headers.get("etag")
        elif kind == "delete":
            _, coll, name = op[:3]
            cond = op[3] if len(op) > 3 else None
            name = self.resolve_name(coll, name)
            target_coll, target_name = coll, name
            headers = {}
            if cond:
                hname, hval = self.cond_header(coll, name, cond, prev)
                headers[hname] = hval
            resp = self.req("DELETE", self.url(coll, name), headers)
            st = dav.effective_status(resp)
            info["status"] = st
            if st in (200, 204):
                info["success"] = True
                if self.model.get(coll) is not None:
                    self.model[coll]["members"].pop(name, None)
        elif kind == "post":
            _, coll, bid = op
            target_coll = coll
            body = B.ALL_BODIES[bid]
            resp = self.req("POST", self.url(coll), {"Content-Type": B.ct_for_body(bid)}, body)
            st = dav.effective_status(resp)
            info["status"] = st
            if st in (200, 201) and resp.headers.get("location"):
                info["success"] = True
                loc = resp.headers["location"]
                path = urllib.parse.urlsplit(loc).path
                name = urllib.parse.unquote(posixpath.basename(path))
                target_name = name
                self.gen[name] = "gen:%s" % bid
                info["location"] = loc
                if self.model.get(coll) is not None:
                    self.model[coll]["members"][name] = body
            elif st in (200, 201, 204):
                info["success"] = True
                self.violation("C16", "post-without-location", "POST add-member acknowledged without Location", {"op": op})
        elif kind in ("mkcalendar", "mkcol"):
            _, coll = op[:2]
            target_coll = coll
            method = "MKCALENDAR" if kind == "mkcalendar" else "MKCOL"
            resp = self.req(method, self.url(coll).rstrip("/") if len(op) > 2 and op[2] == "noslash" else self.url(coll))
            st = dav.effective_status(resp)
            info["status"] = st
            if st == 201:
                info["success"] = True
                self.model[coll] = {"kind": "calendar" if kind == "mkcalendar" else "other", "members": {}, "props": {}}
        elif kind == "delcoll":
            _, coll = op
            target_coll = coll
            resp = self.req("DELETE", self.url(coll))
            st = dav.effective_status(resp)
            info["status"] = st
            if st in (200, 204):
                info["success"] = True
                self.model[coll] = None
                self.commits_seen.pop(coll, None)
                if coll == "cal":
                    self.tokens = []  # tokens of an earlier incarnation of the URL are nobody's business any more
        elif kind == "proppatch":
            _, coll, pkey, value = op[:4]
            target_coll = coll
            tag = PROP_TAGS[pkey]
            if value is None:
                body = dav.proppatch_body(removes=[tag])
            else:
                body = dav.proppatch_body(sets=[(tag, value)])
            hdrs = dav.XML_CT
            if len(op) > 4 and op[4]:
                # the same document in another character encoding: named in the XML declaration and (optionally) in the
                # charset parameter of the Content-Type
                enc, with_param = op[4]
                body = body.decode("utf-8").replace('encoding="utf-8"', 'encoding="%s"' % enc).encode(enc)
                hdrs = {"Content-Type": "application/xml; charset=%s" % enc if with_param else "application/xml"}
            resp = self.req("PROPPATCH", self.url(coll), hdrs, body)
            st = resp.status
            info["status"] = st
            ok = False
            if st == 207:
                ms = dav.parse_multistatus(resp.body)
                if not ms.parse_error and len(ms.responses) == 1:
                    ok = ms.responses[0].prop_status(tag) == 200
                    info["propstatus"] = ms.responses[0].prop_status(tag)
            if ok:
                info["success"] = True
                if self.model.get(coll) is not None:
                    if value is None:
                        self.model[coll]["props"].pop(pkey, None)
                    else:
                        self.model[coll]["props"][pkey] = value
        elif kind == "mprop":
            # PROPPATCH of a property of a MEMBER (not of the collection)
            _, coll, name, pkey, value = op
            target_coll, target_name = coll, name
            tag = {"executable": "{http://apache.org/dav/props/}executable", "displayname": dav.P_DISPLAYNAME, "contenttype": "{DAV:}getcontenttype", "dead": "{http://example.com/ns}note"}[pkey]
            resp = self.req("PROPPATCH", self.url(coll, name), dav.XML_CT, dav.proppatch_body(sets=[(tag, value)]))
            st = resp.status
            info["status"] = st
            if st == 207:
                ms = dav.parse_multistatus(resp.body)
                if not ms.parse_error and len(ms.responses) == 1 and ms.responses[0].prop_status(tag) == 200:
                    info["success"] = True
                    # an acknowledged member-property write is part of the history that reaches a state (it may have
                    # touched things the client cannot see), so it is part of the state key
                    if self.model.get(coll) is not None:
                        self.model[coll].setdefault("mprops", {})["%s:%s" % (name, pkey)] = value
        elif kind == "restart":
            self.world.restart()
            if self.world_b is not None:
                self.world_b.restart()
            info["success"] = False
            info["status"] = 0
        elif kind == "get":
            _, coll, name = op
            resp = self.req("GET", self.url(coll, self.resolve_name(coll, name)))
            info["status"] = resp.status
        elif kind == "propfind":
            _, coll, depth = op
            resp = self.req("PROPFIND", self.url(coll), dict(dav.XML_CT, Depth=depth), dav.propfind_body(AUDIT_PROPS))
            info["status"] = resp.status
        elif kind == "query":
            _, coll = op
            flt = '<C:comp-filter name="VCALENDAR"><C:comp-filter name="VEVENT"><C:prop-filter name="SUMMARY"/></C:comp-filter></C:comp-filter>'
            resp = self.req("REPORT", self.url(coll), dict(dav.XML_CT, Depth="1"), dav.calquery_body(flt if "queries" in self.cfg.features else dav.ALL_VCALENDAR, [dav.P_GETETAG]))
            info["status"] = resp.status
        else:
            raise ValueError("unknown op %r" % (op,))
        info["outcome"] = "%s:%s" % (kind, info.get("status"))
        if resp is not None and resp.exc:
            info["exc"] = resp.exc
        if fault_k is not None:
            self.pending_fault = None
            info["fault"] = self.last_fault
            info["outcome"] = "fault:" + info["outcome"]
        self.hist.append(full_op)
        self._via_b = False
        if getattr(self, "_no_audit", False):
            return info
        self.prev_audit = prev
        audit = self.audit()
        self.recording = check
        if self.world_b is not None and not self.diverged:
            self.compare_workers(full_op, audit)
        if not self.diverged:
            self.check(op, info, resp, prev, audit, model_before, target_coll, target_name)
            if "sync" in self.cfg.features:
                self.sync_step(op, audit)
        self.recording = True
        self.last_audit = audit
        return info

    def compare_workers(self, op, audit):
        """Both workers serve the same directory: after every request what they show must be the same."""
        self._via_b = True
        try:
            audit_b = self.audit()
        finally:
            self._via_b = False
        prop = sorted(self.cfg.oracles)[0] if self.cfg.oracles else "C07"
        for coll in ("cal", "ab", "c2"):
            oa, ob = self.observable(audit[coll]), self.observable(audit_b[coll])
            if oa != ob:
                self.diverged = True
                fields = ("exists", "status", "tags", "props", "listing", "subs", "get")
                diff = [f for f, x, y in zip(fields, oa, ob) if x != y]
                flat = [tuple(h[1]) if h and h[0] == "b" else tuple(h) for h in self.hist]
                recreated = any(h[0] == "delcoll" and h[1] == coll for h in flat)
                what = "after-delete-and-recreate" if recreated else "+".join(diff)
                self.violation(prop, "workers-disagree:%s" % what, "two workers on the same directory show different %s of one collection after the same history" % "/".join(diff),
                               {"op": op, "coll": coll, "worker_a": repr(oa)[:600], "worker_b": repr(ob)[:600]})

    def cond_header(self, coll, name, cond, audit):
        """cond = (header, spec); spec in current|stale|other|star|<literal>"""
        hname, spec = cond
        cur = None
        a = audit.get(coll)
        if a and name in a["get"] and a["get"][name][0] == 200:
            cur = a["get"][name][1]
        if spec == "current":
            val = cur or '"0000000000000000000000000000000000000000"'
        elif spec == "star":
            val = "*"
        elif spec.startswith("etagof:"):
            # etag a given body would have on a git store (stale versions)
            from . import storesys

            val = '"%s"' % storesys.stored_etag(spec[7:])
        else:
            val = spec
        return hname, val

    # -- audit ------------------------------------------------------------

    def audit(self):
        feats = self.cfg.features
        out = {}
        for coll in ("cal", "ab", "c2"):
            a = {"exists": False, "status": None, "tags": {}, "props": {}, "listing": {}, "subs": [], "get": {}, "head": {}, "views": {}, "bodies": {}, "dup_hrefs": 0}
            base = self.url(coll)
            r = self.req("PROPFIND", base, dict(dav.XML_CT, Depth="1"), dav.propfind_body(AUDIT_PROPS))
            a["status"] = r.status
            names = set(self.cfg.names.get(coll, []))
            if self.model.get(coll) is not None:
                names |= set(self.model[coll]["members"])
            if r.status == 207:
                ms = dav.parse_multistatus(r.body)
                if ms.parse_error:
                    a["status"] = "unparseable"
                else:
                    selfresp = None
                    for x in ms.responses:
                        p = urllib.parse.unquote(dav.resolve_href(base, x.href or ""))
                        if p.rstrip("/") == urllib.parse.unquote(base).rstrip("/"):
                            selfresp = x
                            continue
                        nm = p[len(urllib.parse.unquote(base)):] if p.startswith(urllib.parse.unquote(base)) else p
                        if nm.endswith("/"):
                            a["subs"].append(nm)
                        else:
                            if nm in a["listing"]:
                                a["dup_hrefs"] += 1
                            a["listing"][nm] = x.prop_text(dav.P_GETETAG)
                    if selfresp is not None and selfresp.status in (None, 200):
                        if selfresp.status == 404 or (selfresp.props == {} and selfresp.status is not None and selfresp.status >= 400):
                            pass
                        else:
                            a["exists"] = True
                            a["tags"] = {
                                "ctag_cs": selfresp.prop_text(dav.P_CTAG_CS),
                                "ctag_dav": selfresp.prop_text(dav.P_CTAG_DAV),
                                "sync": selfresp.prop_text(dav.P_SYNCTOKEN),
                                "etag": selfresp.prop_text(dav.P_GETETAG),
                            }
                            rt = dav.resourcetypes(selfresp)
                            a["props"]["resourcetype"] = sorted(rt) if rt is not None else None
                            for pk, tag in PROP_TAGS.items():
                                a["props"][pk] = selfresp.prop_text(tag)
                    elif selfresp is not None:
                        a["status"] = selfresp.status
                    names |= set(a["listing"])
            for nm in sorted(names):
                g = self.req("GET", self.url(coll, nm))
                a["get"][nm] = (g.status, g.headers.get("etag"), sha(g.body) if g.status == 200 else None)
                if g.status == 200:
                    a["bodies"][nm] = g.body
                if "head" in feats:
                    h = self.req("HEAD", self.url(coll, nm))
                    a["head"][nm] = (h.status, h.headers.get("etag"))
            if "views" in feats and a["exists"]:
                self.audit_views(coll, a, sorted(names))
            if "git" in feats and a["exists"]:
                a["git"] = self.audit_git(coll)
            if "shapes" in feats and a["exists"] and coll in ("cal", "c2") and (self.model.get(coll) or {}).get("kind", "calendar") == "calendar":
                # filtered listings: which members a calendar-query for one component type returns - each shape twice in a row,
                # one shape after the other (the way a client polling two views does), so that query-driven machinery is in use
                a["shapes"] = {}
                for comp in ("VEVENT", "VEVENT", "VTODO", "VTODO"):
                    flt = '<C:comp-filter name="VCALENDAR"><C:comp-filter name="%s"/></C:comp-filter>' % comp
                    rq = self.req("REPORT", base, dict(dav.XML_CT, Depth="1"), dav.calquery_body(flt, [dav.P_GETETAG]))
                    if rq.status != 207:
                        a["shapes"].setdefault(comp, []).append(("status", rq.status))
                        continue
                    msq = dav.parse_multistatus(rq.body)
                    a["shapes"].setdefault(comp, []).append(tuple(sorted(urllib.parse.unquote(posixpath.basename(dav.resolve_href(base, x.href or ""))) for x in msq.responses)))
            if "C08" in self.cfg.oracles and a["exists"]:
                # the tags once more, after all the reads of this audit (and asked for on their own)
                r2 = self.req("PROPFIND", base, dict(dav.XML_CT, Depth="0"), dav.propfind_body([dav.P_GETETAG, dav.P_CTAG_CS, dav.P_CTAG_DAV, dav.P_SYNCTOKEN]))
                if r2.status == 207:
                    ms2 = dav.parse_multistatus(r2.body)
                    if not ms2.parse_error and ms2.responses:
                        x = ms2.responses[0]
                        a["tags_after"] = {"ctag_cs": x.prop_text(dav.P_CTAG_CS), "ctag_dav": x.prop_text(dav.P_CTAG_DAV), "sync": x.prop_text(dav.P_SYNCTOKEN), "etag": x.prop_text(dav.P_GETETAG)}
            out[coll] = a
        return out

    def audit_views(self, coll, a, names):
        base = self.url(coll)
        kind = COLL_KIND.get(coll, "calendar")
        if self.model.get(coll) is not None:
            kind = self.model[coll]["kind"]
        views = {n: {} for n in names}
        # PROPFIND depth 0 on every name
        for nm in names:
            r = self.req("PROPFIND", self.url(coll, nm), dict(dav.XML_CT, Depth="0"), dav.propfind_body([dav.P_GETETAG]))
            if r.status == 207:
                ms = dav.parse_multistatus(r.body)
                if not ms.parse_error and ms.responses and ms.responses[0].status in (None, 200):
                    views[nm]["propfind0"] = ms.responses[0].prop_text(dav.P_GETETAG)
        mkind = "calendar" if kind in ("calendar", "other") else "addressbook"
        dataprop = dav.P_CALDATA if mkind == "calendar" else dav.P_ADDRDATA
        r = self.req("REPORT", base, dict(dav.XML_CT, Depth="1"), dav.multiget_body(mkind, ["never-there.ics"] + [self.url(coll, n) for n in names], [dav.P_GETETAG, dataprop]))  # (a relative href the server cannot map to a path leads the list)
        a["multiget_status"] = r.status
        if r.status == 207:
            ms = dav.parse_multistatus(r.body)
            for x in ms.responses:
                nm = urllib.parse.unquote(posixpath.basename(dav.resolve_href(base, x.href or "")))
                if nm in views and x.status in (None, 200) and x.prop_status(dav.P_GETETAG) == 200:
                    views[nm]["multiget"] = x.prop_text(dav.P_GETETAG)
                    d = x.prop_text(dataprop)
                    if d is not None:
                        views[nm]["multiget_data"] = sha(nl(d.encode("utf-8")))
        if kind == "calendar":
            r = self.req("REPORT", base, dict(dav.XML_CT, Depth="1"), dav.calquery_body(dav.ALL_VCALENDAR, [dav.P_GETETAG, dav.P_CALDATA]))
            a["query_status"] = r.status
            if r.status == 207:
                ms = dav.parse_multistatus(r.body)
                for x in ms.responses:
                    nm = urllib.parse.unquote(posixpath.basename(dav.resolve_href(base, x.href or "")))
                    views.setdefault(nm, {})["query"] = x.prop_text(dav.P_GETETAG)
                    d = x.prop_text(dav.P_CALDATA)
                    if d is not None:
                        views[nm]["query_data"] = sha(nl(d.encode("utf-8")))
        elif kind == "addressbook":
            r = self.req("REPORT", base, dict(dav.XML_CT, Depth="1"), dav.abquery_body("<C:filter/>", [dav.P_GETETAG]))
            a["query_status"] = r.status
            if r.status == 207:
                ms = dav.parse_multistatus(r.body)
                for x in ms.responses:
                    nm = urllib.parse.unquote(posixpath.basename(dav.resolve_href(base, x.href or "")))
                    views.setdefault(nm, {})["query"] = x.prop_text(dav.P_GETETAG)
        if "nested" in self.cfg.features:
            # Depth: infinity views: whatever href is reported with an ETag must be the ETag GET gives for that href as sent
            deep = []
            reqs = [("propfind-infinity", "PROPFIND", dav.propfind_body([dav.P_GETETAG, dav.P_RESOURCETYPE])), ("propfind-no-depth-header", "PROPFIND", dav.propfind_body([dav.P_GETETAG, dav.P_RESOURCETYPE]))]
            if kind == "calendar":
                reqs.append(("query-infinity", "REPORT", dav.calquery_body(dav.ALL_VCALENDAR, [dav.P_GETETAG])))
            for (vname, meth, body) in reqs:
                hd = dict(dav.XML_CT)
                if vname != "propfind-no-depth-header":
                    hd["Depth"] = "infinity"
                rr = self.req(meth, base, hd, body)
                if rr.status != 207:
                    continue
                msd = dav.parse_multistatus(rr.body)
                seen_h = {}
                for x in msd.responses:
                    et = x.prop_text(dav.P_GETETAG)
                    rt = dav.resourcetypes(x)
                    if not et or (rt and "{DAV:}collection" in rt):
                        continue
                    tgt = dav.resolve_href(base, x.href or "")
                    if tgt in seen_h and seen_h[tgt] != et:
                        deep.append((vname, x.href, "listed-twice-with-different-etags", et, seen_h[tgt]))
                    seen_h[tgt] = et
                    g = self.req("GET", tgt)
                    if g.status != 200 or g.headers.get("etag") != et:
                        deep.append((vname, x.href, "get-disagrees", et, "%s %s" % (g.status, g.headers.get("etag"))))
                nested_seen = any("/sub/" in (dav.resolve_href(base, x.href or "")) for x in msd.responses)
                if not nested_seen and vname.startswith("propfind") and coll == "cal":
                    deep.append((vname, None, "nested-member-not-listed", None, None))
            a["deep"] = deep
        r = self.req("REPORT", base, dict(dav.XML_CT, Depth="1"), dav.sync_body("", [dav.P_GETETAG]))
        a["sync_status"] = r.status
        if r.status == 207:
            ms = dav.parse_multistatus(r.body)
            a["sync_token_report"] = ms.sync_token
            for x in ms.responses:
                nm = urllib.parse.unquote(posixpath.basename(dav.resolve_href(base, x.href or "")))
                if x.status == 404:
                    views.setdefault(nm, {})["sync"] = "404"
                else:
                    views.setdefault(nm, {})["sync"] = x.prop_text(dav.P_GETETAG)
        a["views"] = views

    def audit_git(self, coll):
        path = os.path.join(self.root, COLL_PATHS[coll].strip("/"))
        g = {}
        rc, out, err = _run_git(path, "rev-list", "HEAD")
        g["commits"] = out.decode().split() if rc == 0 else []
        rc, out, err = _run_git(path, "rev-list", "--parents", "-n", "1", "HEAD")
        g["head_parents"] = out.decode().split() if rc == 0 else []
        rc, out, err = _run_git(path, "ls-tree", "-r", "-z", "HEAD")
        tree = {}
        if rc == 0:
            for ent in out.split(b"\x00"):
                if not ent:
                    continue
                meta, _, nm = ent.partition(b"\t")
                mode, typ, oid = meta.decode().split()
                tree[nm.decode("utf-8", "replace")] = (mode, typ, oid)
        g["tree"] = tree
        bare = not os.path.isdir(os.path.join(path, ".git"))
        g["bare"] = bare
        if not bare:
            rc, out, err = _run_git(path, "status", "--porcelain")
            g["status"] = out.decode("utf-8", "replace") if rc == 0 else "ERR " + err.decode("utf-8", "replace")
        if "fsck" in self.cfg.features:
            rc, out, err = _run_git(path, "fsck", "--strict", "--no-dangling")
            g["fsck"] = (rc, (out + err).decode("utf-8", "replace")[:500])
        return g

    # -- oracles ----------------------------------------------------------

    def check(self, op, info, resp, prev, audit, model_before, tcoll, tname):
        orc = self.cfg.oracles
        if getattr(self, "_burst", False):
            if "C01" in orc:
                self.check_c01(("burst",) + tuple(op), dict(info, success=True), audit, audit, None, None)
            if "C02" in orc:
                self.check_c02(("burst",) + tuple(op), {"success": False}, audit, audit, None, None)
            if "C06" in orc:
                # only the invariant (no UID twice) is judged after a burst
                self.check_c06(("burst",), info, None, audit, audit, tcoll, tname)
            return
        if "C01" in orc:
            self.check_c01(op, info, prev, audit, tcoll, tname)
        if "C02" in orc:
            self.check_c02(op, info, prev, audit, tcoll, tname)
        if "C08" in orc:
            self.check_c08(op, info, prev, audit, tcoll)
        if "C09" in orc:
            self.check_c09(op, info, prev, audit, tcoll, tname, model_before)
        if "C06" in orc:
            self.check_c06(op, info, resp, prev, audit, tcoll, tname)
        if "C15" in orc:
            self.check_c15(op, info, resp, prev, audit, tcoll)

    @staticmethod
    def observable(a):
        """The client-observable part of one collection's audit (no commit ids, no bodies)."""
        if a is None:
            return None
        return (a["exists"], a["status"], tuple(sorted(a["tags"].items())), tuple(sorted((k, repr(v)) for k, v in a["props"].items())),
                tuple(sorted(a["listing"].items())), tuple(sorted(a["subs"])), tuple(sorted(a["get"].items())))

    def content_matches(self, name, served, expected):
        if name.lower().endswith(".ics"):
            return ical.same_calendar(served, expected)
        return served == expected

    def check_c01(self, op, info, prev, audit, tcoll, tname):
        kind = op[0]
        # (1) audit equals the model
        for coll in ("cal", "ab", "c2"):
            a = audit[coll]
            m = self.model.get(coll)
            if m is None:
                if a["exists"]:
                    self.violation("C01", "collection-exists-unexpectedly:%s" % kind, "collection %s answers PROPFIND although it was never created / was deleted" % coll, {"op": op, "status": a["status"]})
                for nm, g in a["get"].items():
                    if g[0] != 404:
                        self.violation("C01", "absent-not-404:%s" % kind, "GET of a member of a non-existent collection answered %s" % g[0], {"op": op, "name": nm})
                continue
            if not a["exists"]:
                self.violation("C01", "collection-missing:%s" % kind, "collection %s does not answer PROPFIND (status %s)" % (coll, a["status"]), {"op": op, "info": info})
                continue
            for comp, answers in (a.get("shapes") or {}).items():
                want = tuple(sorted(n for n, b in m["members"].items() if n.lower().endswith(".ics") and (b"BEGIN:" + comp.encode()) in b))
                for i, got in enumerate(answers):
                    if got != want:
                        self.violation("C01", "filtered-listing-mismatch:%s:%s" % (comp, "first" if i == 0 else "repeated"), "calendar-query for %s lists %s, the live members with such a component are %s" % (comp, list(got), list(want)), {"op": op, "coll": coll})
                        break
            if set(a["listing"]) != set(m["members"]):
                self.violation("C01", "listing-mismatch:%s" % kind, "Depth:1 listing %s != live members %s" % (sorted(a["listing"]), sorted(m["members"])), {"op": op, "coll": coll, "info": info})
            if a["dup_hrefs"]:
                self.violation("C01", "listing-duplicate:%s" % kind, "a member is listed twice", {"op": op, "coll": coll})
            for nm, g in a["get"].items():
                if nm in m["members"]:
                    if g[0] != 200:
                        self.violation("C01", "member-get-%s:%s" % (g[0], kind), "GET of live member answered %s" % g[0], {"op": op, "coll": coll, "name": self.canon_name(nm), "info": info})
                    elif not self.content_matches(nm, a["bodies"][nm], m["members"][nm]):
                        self.violation("C01", "content-mismatch:%s" % kind, "GET does not serve the content of the last successful write", {"op": op, "coll": coll, "name": self.canon_name(nm), "served": a["bodies"][nm], "expected": m["members"][nm]})
                else:
                    if g[0] != 404:
                        self.violation("C01", "absent-not-404:%s" % kind, "GET of a never-created/deleted name answered %s" % g[0], {"op": op, "coll": coll, "name": nm, "info": info})
        # (2) failed requests change nothing; successful ones only their target
        if kind == "restart" or not info.get("success"):
            for coll in ("cal", "ab", "c2"):
                if self.observable(prev[coll]) != self.observable(audit[coll]):
                    self.violation("C01", "%s-changed-state:%s" % ("restart" if kind == "restart" else ("read" if kind in ("get", "propfind", "query") else "refused-request"), kind),
                                   "a request that was not answered with success (status %s) changed the observable state of %s" % (info.get("status"), coll),
                                   {"op": op, "info": info, "before": self.observable(prev[coll]), "after": self.observable(audit[coll])})
        else:
            for coll in ("cal", "ab", "c2"):
                if coll == tcoll:
                    if kind in ("put", "delete", "post"):
                        # other members untouched, properties untouched
                        pa, na = prev[coll], audit[coll]
                        for nm in set(pa["get"]) | set(na["get"]):
                            if nm == tname:
                                continue
                            if pa["get"].get(nm) != na["get"].get(nm) and nm in pa["get"] and nm in na["get"]:
                                self.violation("C01", "other-member-changed:%s" % kind, "a write to %s altered member %s" % (tname, nm), {"op": op, "before": pa["get"].get(nm), "after": na["get"].get(nm)})
                        if pa["props"] != na["props"]:
                            self.violation("C01", "props-changed-by-member-write:%s" % kind, "a member write altered collection properties", {"op": op, "before": pa["props"], "after": na["props"]})
                    elif kind == "proppatch":
                        pa, na = prev[coll], audit[coll]
                        if pa["get"] != na["get"] or pa["listing"] != na["listing"]:
                            self.violation("C01", "members-changed-by-proppatch", "PROPPATCH altered members", {"op": op})
                    continue
                if self.observable(prev[coll]) != self.observable(audit[coll]):
                    self.violation("C01", "other-collection-changed:%s" % kind, "a write to %s altered %s" % (tcoll, coll), {"op": op, "before": self.observable(prev[coll]), "after": self.observable(audit[coll])})

    def check_c02(self, op, info, prev, audit, tcoll, tname):
        kind = op[0]
        git = True
        for coll in ("cal", "ab", "c2"):
            a = audit[coll]
            if not a["exists"]:
                continue
            for (vname, href, what, et1, et2) in a.get("deep") or ():
                self.violation("C02", "deep-view:%s:%s" % (vname, what), "%s reports %r with ETag %s, but %s" % (vname, href, et1, et2), {"op": op, "coll": coll})
            for nm, g in a["get"].items():
                if g[0] != 200:
                    # absent: no view may carry an etag
                    v = a["views"].get(nm, {})
                    for view, et in v.items():
                        if view.endswith("_data"):
                            continue
                        if et not in (None, "404"):
                            self.violation("C02", "view-etag-for-absent:%s" % view, "view %s reports an etag for a resource GET answers %s" % (view, g[0]), {"op": op, "name": nm})
                    continue
                et = g[1]
                body = a["bodies"][nm]
                if et is None:
                    self.violation("C02", "get-without-etag", "GET 200 without ETag", {"op": op, "name": nm})
                    continue
                if git and self.recording:
                    # on this tree the ETag of a git-backed resource is the blob id of the served bytes; whether THAT still
                    # holds is decided over the whole exploration (another consistent scheme is not a violation, an ETag
                    # that names another version than the one served is)
                    self.obs.append(("blobid", self.cfg.label, et == '"%s"' % git_blob_id(body), et, self.canon_name(nm), [list(o) for o in self.hist][-6:]))
                views = dict(a["views"].get(nm, {}))
                views["listing"] = a["listing"].get(nm)
                if nm in a["head"]:
                    views["head"] = a["head"][nm][1]
                    if a["head"][nm][0] != 200:
                        self.violation("C02", "head-status", "HEAD answers %s where GET answers 200" % a["head"][nm][0], {"op": op, "name": nm})
                for view, v in views.items():
                    if view in ("multiget_data", "query_data"):
                        if v != sha(nl(body)):
                            self.violation("C02", "%s-differs" % view.replace("_", "-"), "the body a report returns under this ETag differs from the GET body", {"op": op, "name": self.canon_name(nm)})
                        continue
                    if v != et:
                        self.violation("C02", "views-disagree:%s" % view, "ETag seen via %s is %s, via GET %s" % (view, v, et), {"op": op, "name": self.canon_name(nm), "coll": coll})
                expected_views = {"listing"}
                if "views" in self.cfg.features:
                    expected_views |= {"propfind0", "multiget", "sync"}
                    if a.get("query_status") == 207:
                        expected_views.add("query")
                for view in expected_views:
                    if view not in views:
                        self.violation("C02", "view-missing:%s" % view, "resource missing from view %s" % view, {"op": op, "name": self.canon_name(nm), "coll": coll})
                if self.recording:
                    self.obs.append(("etag", self.cfg.label, et, sha(body)))
            # etag changes iff served bytes change
            pa = prev[coll]
            if pa["exists"]:
                for nm, g in a["get"].items():
                    pg = pa["get"].get(nm)
                    if pg is None or pg[0] != 200 or g[0] != 200:
                        continue
                    if (pg[1] == g[1]) != (pg[2] == g[2]):
                        self.violation("C02", "etag-bytes-iff:%s" % kind, "etag changed=%s but bytes changed=%s" % (pg[1] != g[1], pg[2] != g[2]), {"op": op, "name": self.canon_name(nm)})
        if kind == "put" and info.get("success"):
            a = audit[tcoll]
            g = a["get"].get(tname)
            pe = info.get("put_etag")
            if g and g[0] == 200:
                if pe is None:
                    self.violation("C02", "put-without-etag", "successful PUT carried no ETag", {"op": op})
                elif pe != g[1]:
                    self.violation("C02", "views-disagree:put", "PUT returned ETag %s, GET serves %s" % (pe, g[1]), {"op": op})

    def coll_state(self, coll, a):
        """Abstract content of a collection as observed: members with the hash of the served bytes."""
        return tuple(sorted((self.canon_name(nm), g[2]) for nm, g in a["get"].items() if g[0] == 200))

    def check_c08(self, op, info, prev, audit, tcoll):
        """Every tag view (getctag in both namespaces, sync-token, collection getetag) is judged on its own: the property
        speaks about each of them, not about their being the same string."""
        kind = op[0]
        for coll in ("cal", "ab", "c2"):
            a = audit[coll]
            if not a["exists"]:
                continue
            t = a["tags"]
            missing = [v for v in ("ctag_cs", "ctag_dav", "sync", "etag") if not t.get(v)]
            if missing:
                self.violation("C08", "tag-view-missing:%s" % "+".join(missing), "a collection does not report %s" % "/".join(missing), {"op": op, "coll": coll})
            if a.get("tags_after") is not None and a["tags_after"] != t:
                self.violation("C08", "tag-changed-by-read:audit", "the tags read before and after the audit's own reads (PROPFIND of all properties, GET, reports) differ: %r then %r" % (t, a["tags_after"]), {"op": op, "coll": coll})
            state = self.coll_state(coll, a)
            # versioned metadata is part of what a git tag covers
            meta = tuple(sorted(self.model[coll]["props"].items())) if self.model.get(coll) else ()
            pa = prev[coll]
            pstate = self.coll_state(coll, pa) if pa["exists"] else None
            for view in ("ctag_cs", "ctag_dav", "sync", "etag"):
                tag = t.get(view)
                if not tag:
                    continue
                if self.recording:
                    self.obs.append(("tag", self.cfg.label + "|" + view, coll if self.cfg.metadata != "file" else "*", tag, state, meta, a["props"].get("resourcetype") and tuple(a["props"]["resourcetype"])))
                if not pa["exists"]:
                    continue
                ptag = pa["tags"].get(view)
                if not ptag:
                    continue
                vl = "" if view == "sync" else ":" + view
                if state != pstate and tag == ptag:
                    self.violation("C08", "tag-unchanged-on-change:%s%s" % (kind, vl), "collection contents changed but %s did not" % view, {"op": op, "coll": coll})
                if tag != ptag:
                    if kind == "restart" or kind in ("get", "propfind", "query"):
                        self.violation("C08", "tag-changed-by-%s%s" % ("restart" if kind == "restart" else "read", vl), "%s changed without any write" % view, {"op": op, "coll": coll})
                    elif not info.get("success"):
                        self.violation("C08", "tag-changed-by-refused:%s%s" % (kind, vl), "a refused/failed request (status %s) changed %s" % (info.get("status"), view), {"op": op, "coll": coll, "info": info})
                    elif coll != tcoll:
                        self.violation("C08", "tag-changed-by-other-collection:%s%s" % (kind, vl), "a write to %s changed %s of %s" % (tcoll, view, coll), {"op": op})

    def _members_differ(self, before, after):
        """Model-level member maps differ in more than formatting (a re-serialised copy of the stored calendar is a no-op rewrite)."""
        b, a = dict(before), dict(after)
        if set(b) != set(a):
            return True
        for nm in b:
            if b[nm] == a[nm]:
                continue
            x, y = B.ALL_BODIES.get(b[nm]), B.ALL_BODIES.get(a[nm])
            if x is None or y is None or not self.content_matches(nm, x, y):
                return True
        return False

    def check_c09(self, op, info, prev, audit, tcoll, tname, model_before=None):
        kind = op[0]
        for coll in ("cal", "ab", "c2"):
            a = audit[coll]
            if not a["exists"] or "git" not in a:
                continue
            g = a["git"]
            commits = g["commits"]
            # tree lists exactly the current members with the served bytes
            tree = {n: v for n, v in g["tree"].items() if n != ".xandikos"}
            served = {nm: git_blob_id(a["bodies"][nm]) for nm, x in a["get"].items() if x[0] == 200}
            if {n: v[2] for n, v in tree.items()} != served:
                self.violation("C09", "head-tree-differs-from-members:%s" % kind, "HEAD tree %s != served members %s" % (sorted(tree), sorted(served)), {"op": op, "coll": coll})
            if not g["bare"] and g.get("status"):
                self.violation("C09", "git-status-dirty:%s" % kind, "git status not clean: %r" % g["status"][:200], {"op": op, "coll": coll})
            if "fsck" in g and g["fsck"][0] != 0:
                self.violation("C09", "git-fsck:%s" % kind, "git fsck --strict reports: %s" % g["fsck"][1][:300], {"op": op, "coll": coll})
            seen = self.commits_seen.setdefault(coll, set())
            lost = seen - set(commits)
            if lost:
                self.violation("C09", "commit-dropped:%s" % kind, "commits no longer reachable from the branch: %s" % sorted(lost)[:3], {"op": op, "coll": coll})
            seen.update(commits)
            pa = prev[coll]
            if not pa["exists"] or "git" not in pa:
                continue
            pcommits = pa["git"]["commits"]
            delta = len(commits) - len(pcommits)
            versioned_before = (tuple(sorted(pa["listing"].items())), self.versioned_meta(pa))
            versioned_after = (tuple(sorted(a["listing"].items())), self.versioned_meta(a))
            expected = 1 if versioned_before != versioned_after else 0
            if delta == 0 and coll == tcoll and info.get("success") and model_before is not None and kind in ("put", "delete", "post", "proppatch"):
                # "every successful change adds exactly one commit": the request was acknowledged and, by the reference model, it
                # changed the members (or a property kept in the tree) - judged by the model, so that a write that was
                # acknowledged but silently not applied cannot hide behind "nothing observable changed, nothing committed"
                mb = dict((x[0], x) for x in model_before).get(coll)
                ma = dict((x[0], x) for x in self.model_canon()).get(coll)
                if mb is not None and ma is not None and len(mb) == 4 and len(ma) == 4 and (self._members_differ(mb[2], ma[2]) or (kind == "proppatch" and self.cfg.metadata == "file" and mb[3] != ma[3])):
                    self.violation("C09", "acknowledged-change-without-commit:%s" % kind, "the request was acknowledged (%s) and changes the collection, but no commit was added" % info.get("status"), {"op": op, "coll": coll, "info": info})
            if delta != expected:
                self.violation("C09", "commit-count:%s:expected+%d:got%+d" % (kind, expected, delta), "request changed versioned state=%s but added %d commits" % (bool(expected), delta), {"op": op, "coll": coll, "info": info})
            if delta >= 1 and pcommits:
                # the new head's first parent is the previous head
                hp = g["head_parents"]
                if delta == 1 and (len(hp) < 2 or hp[1] != pcommits[0]):
                    self.violation("C09", "parent-not-previous-head:%s" % kind, "new commit's parent is %s, previous head was %s" % (hp[1:], pcommits[0]), {"op": op, "coll": coll})
                elif delta == 1 and coll == tcoll and tname is not None and kind in ("put", "delete") and info.get("success"):
                    # the one commit of a write to one member differs from its parent (the previous head, audited before) in that member only
                    ptree = {n: v for n, v in pa["git"]["tree"].items() if n != ".xandikos"}
                    ntree = {n: v for n, v in g["tree"].items() if n != ".xandikos"}
                    others = sorted(n for n in set(ptree) | set(ntree) if n not in (tname, urllib.parse.unquote(tname)) and ptree.get(n) != ntree.get(n))
                    if others:
                        self.violation("C09", "commit-changes-other-members:%s" % kind, "the commit of a %s of %s also changes %s relative to its parent" % (kind, tname, others), {"op": op, "coll": coll, "others": others})
            if delta == 0 and commits and pcommits and commits[0] != pcommits[0]:
                self.violation("C09", "head-rewritten:%s" % kind, "HEAD changed without a new commit", {"op": op, "coll": coll})

    def check_c06(self, op, info, resp, prev, audit, tcoll, tname):
        kind = op[0]
        for coll in ("cal", "c2"):
            a = audit[coll]
            if not a["exists"]:
                continue
            uids = {}
            for nm, body in a["bodies"].items():
                if nm.lower().endswith(".ics"):
                    u = ical.first_uid(body)
                    if u is not None:
                        uids.setdefault(u, []).append(self.canon_name(nm))
            for u, ns in uids.items():
                if len(ns) > 1:
                    self.violation("C06", "duplicate-uid-stored:%s" % kind, "two members share UID %r: %s" % (u, sorted(ns)), {"op": op})
        if not hasattr(self, "uidhist"):
            self.uidhist = {}
            self.restarted = False
        if kind == "restart":
            self.restarted = True
        if kind == "delete" and info.get("success"):
            old = prev[tcoll]["bodies"].get(tname)
            if old is not None and tname.lower().endswith(".ics"):
                u = ical.first_uid(old)
                if u is not None:
                    self.uidhist[(tcoll, u)] = "deleted"
        if kind not in ("put", "post") or resp is None:
            return
        body = B.ALL_BODIES[op[3] if kind == "put" else op[2]]
        isics = (tname or "x.ics").lower().endswith(".ics") if kind == "put" else B.ct_for_body(op[2]) == B.CT_ICS
        if not isics or tcoll not in ("cal", "c2") or not prev[tcoll]["exists"]:
            return
        uid = ical.first_uid(body)
        holders = [self.canon_name(n) for n, c in prev[tcoll]["bodies"].items() if n != tname and n.lower().endswith(".ics") and uid is not None and ical.first_uid(c) == uid]
        conflict = "{urn:ietf:params:xml:ns:caldav}no-uid-conflict" in dav.error_tags(resp)
        if conflict and not holders:
            how = self.uidhist.get((tcoll, uid), "never-held")
            self.violation("C06", "false-conflict:%s%s" % (how, ":after-restart" if self.restarted else ""), "a write was refused with no-uid-conflict although no other resource holds UID %r (previous holder: %s)" % (uid, how), {"op": op})
        if info.get("success") and holders:
            self.violation("C06", "missed-conflict:%s" % kind, "a write gave a resource the UID %r already held by %s" % (uid, holders), {"op": op})
        if conflict and self.observable(prev[tcoll]) != self.observable(audit[tcoll]):
            self.violation("C06", "refused-conflict-changed-state", "a write refused for a UID conflict changed the collection", {"op": op})
        if info.get("success"):
            old = prev[tcoll]["bodies"].get(tname) if tname else None
            if old is not None:
                ou = ical.first_uid(old)
                if ou is not None and ou != uid:
                    self.uidhist[(tcoll, ou)] = "changed-uid"
            if uid is not None:
                self.uidhist.pop((tcoll, uid), None)

    def check_c15(self, op, info, resp, prev, audit, tcoll):
        kind = op[0]
        for coll in ("cal", "ab", "c2"):
            a, pa = audit[coll], prev[coll]
            m = self.model.get(coll)
            if m is None or not a["exists"]:
                continue
            # every property the model holds (set with a success status, not removed since) reads back exactly
            for pk, val in m["props"].items():
                got = a["props"].get(pk)
                if got != val:
                    since = "after-restart" if kind == "restart" else ("immediately" if (kind == "proppatch" and coll == tcoll and op[2] == pk) else "after-%s" % kind)
                    self.violation("C15", "readback:%s:%s:%s" % (pk, since, "missing" if got is None else "different"), "property %s of %s was set to %r with status 200 but PROPFIND returns %r" % (pk, coll, val, got), {"op": op, "coll": coll})
            if not pa["exists"]:
                continue
            # a collection made by plain MKCOL has no recorded type: xandikos derives one from its members, and with the type the
            # set of properties that exist; there only the values that were SET are protected (checked above)
            untyped = m.get("kind") == "other"
            for pk in a["props"]:
                if untyped and (pk == "resourcetype" or pk not in m["props"]):
                    continue
                if pk == "resourcetype":
                    if a["props"][pk] != pa["props"].get(pk):
                        self.violation("C15", "resourcetype-changed:%s" % kind, "resource type changed", {"op": op, "coll": coll})
                    continue
                changed = a["props"][pk] != pa["props"].get(pk)
                if not changed:
                    continue
                targeted = kind == "proppatch" and coll == tcoll and op[2] == pk and info.get("success")
                if not targeted:
                    why = "other-collection" if (kind == "proppatch" and coll != tcoll) else ("other-property" if kind == "proppatch" and coll == tcoll and info.get("success") else ("failed-proppatch" if kind == "proppatch" else kind))
                    self.violation("C15", "unrelated-change:%s:%s" % (pk, why), "property %s of %s changed from %r to %r by %s" % (pk, coll, pa["props"].get(pk), a["props"][pk], why), {"op": op, "coll": coll, "info": info})
            if kind == "proppatch" and coll == tcoll and info.get("success") and op[3] is None:
                old = pa["props"].get(op[2])
                if old is not None and a["props"].get(op[2]) == old and old != (posixpath.basename(COLL_PATHS[coll].rstrip("/")) if op[2] == "displayname" else None):
                    self.violation("C15", "remove-acknowledged-but-value-stays:%s" % op[2], "remove of %s answered 200 but the value is still returned" % op[2], {"op": op})
            if kind == "proppatch" and coll == tcoll:
                if pa["get"] != a["get"] or pa["listing"] != a["listing"]:
                    self.violation("C15", "members-changed-by-proppatch", "a PROPPATCH changed members", {"op": op})

    # -- C07: sync-collection ---------------------------------------------

    def sync_report(self, coll, token, props=None):
        r = self.req("REPORT", self.url(coll), dict(dav.XML_CT, Depth="1"), dav.sync_body(token, [dav.P_GETETAG] if props is None else props))
        st = dav.effective_status(r, only_with_error=True)
        if st != 207:
            return st, None, None, r
        ms = dav.parse_multistatus(r.body)
        if ms.parse_error:
            return "unparseable", None, None, r
        changes = {}
        dups = 0
        base = self.url(coll)
        for x in ms.responses:
            nm = urllib.parse.unquote(posixpath.basename(dav.resolve_href(base, x.href or "")))
            if nm in changes:
                dups += 1
            if x.status == 404:
                changes[nm] = "404"
            elif x.status in (None, 200):
                changes[nm] = x.prop_text(dav.P_GETETAG) if props is None else "present"
            else:
                changes[nm] = "status:%s" % x.status
        if dups:
            changes["!dups"] = dups
        return 207, changes, ms.sync_token, r

    def sync_step(self, op, audit):
        """After every step: one report per token issued earlier in this history (and the empty token)."""
        for coll in ("cal",):
            a = audit[coll]
            if not a["exists"]:
                continue
            cur_token = a["tags"].get("sync")
            snap = {nm: g[1] for nm, g in a["get"].items() if g[0] == 200}
            toks = self.tokens
            pairs = [("", {})] + [(t, sn) for (t, sn) in toks]
            if "sync-held" in self.cfg.features:
                # a client that holds on to ONE token: nothing but reports for the oldest token between the writes
                pairs = pairs[1:2] or pairs[:1]
            # every report is issued twice in a row: the answer for a token must not depend on having been asked before
            pairs = [pr for pr in pairs for _ in (0, 1)]
            for rep_i, (tok, old) in enumerate(pairs):
                st, changes, newtok, r = self.sync_report(coll, tok)
                label = ("empty-token" if tok == "" else "token") + (":repeated" if rep_i % 2 else "")
                if st != 207:
                    self.violation("C07", "report-failed:%s:%s" % (label, st), "sync-collection with a token this collection issued answered %s" % st, {"op": op, "token": tok, "exc": r.exc})
                    continue
                expected = {}
                for nm, et in snap.items():
                    if old.get(nm) != et:
                        expected[self.canon_name(nm)] = et
                for nm in old:
                    if nm not in snap:
                        expected[self.canon_name(nm)] = "404"
                got = {self.canon_name(k): v for k, v in changes.items()}
                if got != expected:
                    missing = sorted(set(expected) - set(got))
                    extra = sorted(set(got) - set(expected))
                    wrong = sorted(k for k in set(got) & set(expected) if got[k] != expected[k])
                    kinds = []
                    if missing:
                        kinds.append("missing-" + ("removal" if any(expected[m] == "404" for m in missing) else "change"))
                    if extra:
                        kinds.append("extra")
                    if wrong:
                        kinds.append("wrong-etag-or-status")
                    self.violation("C07", "wrong-change-list:%s:%s" % (label, "+".join(kinds)), "sync report lists %s, expected %s" % (got, expected), {"op": op, "token": tok, "old": old, "new": snap})
                if not newtok:
                    self.violation("C07", "report-without-token:%s" % label, "the report carries no sync-token", {"op": op})
                elif newtok != cur_token and all(t_ != newtok for (t_, _s) in toks):
                    # "a token for the current state": it need not be the same string as the DAV:sync-token property, but it
                    # is now a token this collection issued for THIS state, and every later report from it is checked like
                    # any other
                    toks.append((newtok, snap))
                if rep_i % 2 == 0 and rep_i <= 2:
                    # the same report in other request shapes: no property asked for at all; a property no member has
                    for shape, plist in (("no-props", []), ("unknown-prop", ["{http://example.com/ns}nope"])):
                        st2, ch2, tok2, r2 = self.sync_report(coll, tok, props=plist)
                        want = {k: ("404" if v == "404" else "present") for k, v in expected.items()}
                        got2 = None if ch2 is None else {self.canon_name(k): v for k, v in ch2.items()}
                        if st2 != 207 or got2 != want or not tok2:
                            self.violation("C07", "request-shape:%s:%s" % (shape, "status-%s" % st2 if st2 != 207 else ("wrong-members" if got2 != want else "no-token")),
                                           "sync-collection asking for %s lists %s (token %s), expected %s (token %s)" % (shape, got2, tok2, want, cur_token), {"op": op, "token": tok})
            if cur_token and all(t != cur_token for (t, _) in toks):
                toks.append((cur_token, snap))
            # foreign tokens
            if "foreign" in self.cfg.features and self.recording:
                issued = {t for (t, _) in toks}
                foreign = {
                    "zeros": "0" * 40,
                    "other-collection": audit["ab"]["tags"].get("sync") if audit["ab"]["exists"] else None,
                    "non-hex": "not-a-token",
                    "non-ascii": "t\u00f6ken",
                    "url": "http://example.com/sync/1",
                    "short-hex": "abcdef",
                }
                for nm, g in a["get"].items():
                    if g[0] == 200 and g[1]:
                        foreign["blob-id"] = g[1].strip('"')
                        break
                if "git" in self.cfg.features and a.get("git", {}).get("commits"):
                    foreign["commit-id"] = a["git"]["commits"][0]
                for fk, tok in sorted(foreign.items()):
                    if not tok or tok in issued:
                        continue
                    st, changes, newtok, r = self.sync_report(coll, tok)
                    if st == 207:
                        self.violation("C07", "foreign-token-accepted:%s" % fk, "a token this collection never issued (%s) was answered with a change list %s" % (fk, changes), {"op": op, "token": tok})
                    elif not isinstance(st, int) or st < 400:
                        self.violation("C07", "foreign-token-status:%s:%s" % (fk, st), "foreign token answered %s" % st, {"op": op, "token": tok})

    def versioned_meta(self, a):
        if self.cfg.metadata != "file":
            return ()
        return tuple(sorted((k, repr(v)) for k, v in a["props"].items() if k not in ("resourcetype",)))


def default_ops(s):
    cfg = s.cfg
    ops = []
    for coll in ("cal", "ab", "c2"):
        m = s.model.get(coll)
        names = cfg.names.get(coll, [])
        bods = cfg.bodies.get(coll, [])
        if coll == "c2" and "c2" not in cfg.features:
            continue
        if m is None:
            if coll == "c2":
                ops.append(("mkcalendar", "c2"))
                if "mkcol" in cfg.features:
                    ops.append(("mkcol", "c2"))  # a plain collection: no .xandikos file yet
                if names and bods:
                    ops.append(("put", "c2", names[0], bods[0]))
                    ops.append(("delete", "c2", names[0]))
            elif coll == "cal" and "recreate" in cfg.features:
                ops.append(("mkcalendar", "cal"))
            continue
        for nm in names:
            for b in bods:
                ops.append(("put", coll, nm, b))
            ops.append(("delete", coll, nm))
        if "post" in cfg.features and bods:
            for b in bods[:2]:
                ops.append(("post", coll, b))
            for actual, ph in s.gen.items():
                if actual in m["members"]:
                    ops.append(("delete", coll, "@" + ph))
        if coll == "c2":
            ops.append(("delcoll", "c2"))
            ops.append(("mkcalendar", "c2"))
            ops.append(("mkcol", "c2"))
        elif coll == "cal" and "recreate" in cfg.features:
            ops.append(("delcoll", "cal"))  # the same URL deleted and made again: a new collection behind an old name
        for pk, vals in cfg.props.get(coll, {}).items():
            for v in vals:
                ops.append(("proppatch", coll, pk, v))
    if "two-workers" in cfg.features:
        ops += [("b", o) for o in ops if o[0] in ("put", "delete", "proppatch", "post", "delcoll", "mkcalendar")]
    if "burst" in cfg.features and s.model.get("cal") is not None:
        n = cfg.names["cal"]
        b = cfg.bodies["cal"]
        a0, a1 = n[0], n[-1]
        pairs = [(("put", "cal", a0, b[0]), ("put", "cal", a0, b[1])), (("put", "cal", a0, b[0]), ("delete", "cal", a0)), (("delete", "cal", a0), ("put", "cal", a0, b[0])),
                 (("put", "cal", a0, b[0]), ("put", "cal", a1, b[0])), (("put", "cal", a0, b[1]), ("put", "cal", a1, b[2 % len(b)])), (("delete", "cal", a0), ("delete", "cal", a1))]
        for (o1, o2) in pairs:
            ops.append(("burst", o1, o2))
    if "cond" in cfg.features:
        nm = cfg.names["cal"][0]
        b = cfg.bodies["cal"][0]
        b2 = cfg.bodies["cal"][1]
        ops.append(("put", "cal", nm, b2, ("If-Match", "current")))
        ops.append(("put", "cal", nm, b2, ("If-Match", "etagof:" + b2)))
        ops.append(("put", "cal", nm, b, ("If-None-Match", "star")))
        ops.append(("delete", "cal", nm, ("If-Match", "etagof:" + b2)))
    if "nope" in cfg.features:
        ops.append(("put", "nope", "a.ics", cfg.bodies["cal"][0]))
        ops.append(("delete", "nope", "a.ics"))
    if "member-props" in cfg.features and s.model.get("cal") is not None:
        nm0 = cfg.names["cal"][0]
        if nm0 in s.model["cal"]["members"]:
            ops += [("mprop", "cal", nm0, "executable", "T"), ("mprop", "cal", nm0, "executable", "F"), ("mprop", "cal", nm0, "displayname", "x"), ("mprop", "cal", nm0, "dead", "x")]
    if "queries" in cfg.features and s.model.get("cal") is not None:
        # a calendar-query whose filter has index keys (with --index-threshold 0 the first one builds the index)
        ops.append(("query", "cal"))
    if "restart" in cfg.features:
        ops.append(("restart",))
    return ops
