"""E1: explicit-state breadth-first exploration over the real implementation.

A state is the history (list of operations) that reaches it; live server
objects cannot be copied, so a state is rebuilt by replaying its history on a
fresh root.  States are deduplicated by a canonical key (abstract model state
+ a generic dump of the implementation's caches).  Exploration is
level-synchronous; the states of a level are expanded in parallel by worker
processes.  Every transition is executed on the real code and checked by the
system's oracles; cross-history oracles run in the parent on the merged
observations.
"""

import multiprocessing as mp
import os
import random
import traceback

from . import env

_FACTORY = None


def _set_factory(f):
    global _FACTORY
    _FACTORY = f


def _merge_vios(dst, src):
    for sig, e in src.items():
        m = dst.get(sig)
        if m is None:
            dst[sig] = e
        else:
            m["count"] += e["count"]
            if len(repr(e["witness"])) < len(repr(m["witness"])):
                m["witness"] = e["witness"]
                m["summary"] = e["summary"]


def _key_of(hist):
    s = _FACTORY()
    try:
        s.replay(hist)
        return s.key()
    finally:
        s.close()


def _expand(args):
    """Expand one state: returns (hist, [(op, key, changed, info)], violations, observations, stats)."""
    hist, want_ops = args
    factory = _FACTORY
    out = []
    vios = {}
    obs = []
    stats = {"replays": 0, "requests": 0, "successes": 0, "outcomes": {}}
    sys_ = None
    try:
        sys_ = factory()
        sys_.replay(hist)
        stats["replays"] += 1
        base_key = sys_.key()
        ops = sys_.enabled_ops() if want_ops is None else want_ops
        dirty = False
        for op in ops:
            if dirty:
                sys_.close()
                sys_ = factory()
                sys_.replay(hist)
                stats["replays"] += 1
                dirty = False
            info = sys_.apply(op, check=True)
            _merge_vios(vios, sys_.take_violations())
            obs.extend(sys_.take_observations())
            stats["requests"] += sys_.take_request_count()
            k = sys_.key()
            changed = k != base_key
            out.append((op, k, changed, info))
            oc = info.get("outcome", "?")
            stats["outcomes"][oc] = stats["outcomes"].get(oc, 0) + 1
            if info.get("success"):
                stats["successes"] += 1
            if changed or info.get("diverged"):
                dirty = True
    except Exception:
        return (hist, out, vios, obs, stats, traceback.format_exc())
    finally:
        try:
            if sys_ is not None:
                sys_.close()
        except Exception:
            pass
    return (hist, out, vios, obs, stats, None)


class Result:
    def __init__(self):
        self.states = 0
        self.transitions = 0
        self.max_depth = 0
        self.fixpoint = False
        self.caps = []
        self.violations = {}
        self.observations = []
        self.replays = 0
        self.requests = 0
        self.successes = 0
        self.outcomes = {}
        self.errors = []
        self.histories = []  # sample histories
        self.state_hists = {}  # key -> shortest history
        self.levels = []


def explore(factory, max_depth, workers=None, max_states=None, seed_histories=(), keep_hist=False, progress=None, budget_s=None):
    """Breadth-first search from the initial state (and optional seeded histories)."""
    _set_factory(factory)
    workers = workers or min(16, os.cpu_count() or 1)
    res = Result()
    rnd = random.Random(env.SEED)
    ctx = mp.get_context("fork")
    # the pool is forked BEFORE anything runs in this process: replaying a history starts executor threads
    # (asyncio.to_thread inside the server) and a fork after that would hand dead threads to the children
    pool = ctx.Pool(max(workers, 1))
    k0 = pool.apply(_key_of, ([],))
    seen = {k0: ()}
    level = [()]
    for h in seed_histories:
        k = pool.apply(_key_of, (list(h),))
        if k not in seen:
            seen[k] = tuple(tuple(o) for o in h)
            level.append(tuple(tuple(o) for o in h))
    depth = 0
    import time as _time

    t_start = _time.time()
    out_of_time = False
    try:
        while level:
            if depth >= max_depth:
                res.caps.append("depth=%d (frontier of %d states not expanded)" % (max_depth, len(level)))
                break
            # frontier order is seed-dependent; the explored set is not
            rnd.shuffle(level)
            jobs = [(list(h), None) for h in level]
            results = pool.imap_unordered(_expand, jobs, chunksize=1)
            nxt = []
            collected = []
            for r in results:
                collected.append(r)
                if budget_s is not None and _time.time() - t_start > budget_s:
                    out_of_time = True
                    res.caps.append("time budget %ds: level %d only partially expanded (%d of %d states)" % (budget_s, depth + 1, len(collected), len(jobs)))
                    pool.terminate()
                    break
            # deterministic merge order
            collected.sort(key=lambda r: repr(r[0]))
            for (hist, out, vios, obs, stats, err) in collected:
                if err:
                    res.errors.append("while expanding %r: %s" % (hist, err))
                res.replays += stats["replays"]
                res.requests += stats["requests"]
                res.successes += stats["successes"]
                for oc, n in stats["outcomes"].items():
                    res.outcomes[oc] = res.outcomes.get(oc, 0) + n
                _merge_vios(res.violations, vios)
                res.observations.extend(obs)
                for (op, k, changed, info) in out:
                    res.transitions += 1
                    if info.get("diverged") and not info.get("resynced"):
                        continue
                    if k not in seen:
                        h2 = tuple(hist) + (op,)
                        seen[k] = h2
                        if max_states is not None and len(seen) > max_states:
                            continue
                        nxt.append(h2)
            depth += 1
            res.levels.append(len(nxt))
            if out_of_time:
                level = nxt
                break
            if progress:
                progress(depth, len(seen), res.transitions)
            if max_states is not None and len(seen) > max_states:
                res.caps.append("max_states=%d" % max_states)
                level = nxt
                break
            level = nxt
        else:
            res.fixpoint = True
        if not level:
            res.fixpoint = True
    finally:
        if pool is not None:
            pool.close()
            pool.join()
    res.states = len(seen)
    res.max_depth = max((len(h) for h in seen.values()), default=0)
    hs = sorted(seen.values(), key=lambda h: (len(h), repr(h)))
    res.histories = [list(hs[0])] + [list(h) for h in hs[-2:]]
    if keep_hist:
        res.state_hists = seen
    return res
