"""File-system access monitor built on Python audit events (PEP 578).

Every path argument of the audited file-system events is resolved
(os.path.realpath at event time) and recorded when it lies inside one of the
watched prefixes.  Used in-process (AioWorld / WsgiWorld) and, through
hooked_main.py, inside a real `python -m xandikos` subprocess.
"""

import os
import sys

PATH_EVENTS = {
    "open": (0,),
    "os.listdir": (0,),
    "os.scandir": (0,),
    "os.mkdir": (0,),
    "os.rmdir": (0,),
    "os.remove": (0,),
    "os.rename": (0, 1),
    "os.link": (0, 1),
    "os.symlink": (0, 1),
    "os.chmod": (0,),
    "os.chown": (0,),
    "os.truncate": (0,),
    "os.utime": (0,),
    "os.chdir": (0,),
    "shutil.rmtree": (0,),
    "shutil.copyfile": (0, 1),
    "shutil.copytree": (0, 1),
    "shutil.move": (0, 1),
    "shutil.copymode": (0, 1),
    "shutil.copystat": (0, 1),
    "glob.glob": (0,),
    "os.walk": (0,),
    "os.fwalk": (0,),
    "pathlib.Path.glob": (0,),
}


class Monitor:
    def __init__(self, watched, sink=None):
        self.watched = [os.path.realpath(w) for w in watched]
        self.events = []
        self.recording = False
        self.sink = sink  # optional fd: one line per event
        self._busy = False

    def hook(self, event, args):
        if not self.recording or self._busy:
            return
        idx = PATH_EVENTS.get(event)
        if idx is None:
            return
        self._busy = True
        try:
            for i in idx:
                if i >= len(args):
                    continue
                p = args[i]
                if isinstance(p, bytes):
                    p = p.decode("utf-8", "surrogateescape")
                if not isinstance(p, str):
                    continue
                try:
                    rp = os.path.realpath(p)
                except (OSError, ValueError):
                    rp = os.path.abspath(p)
                for w in self.watched:
                    if rp == w or rp.startswith(w + os.sep):
                        extra = ""
                        if event == "open" and len(args) > 1:
                            extra = str(args[1])
                        if self.sink is not None:
                            os.write(self.sink, ("%s\t%s\t%s\n" % (event, rp, extra)).encode("utf-8", "surrogateescape"))
                        else:
                            self.events.append((event, rp, extra))
                        break
        finally:
            self._busy = False

    def take(self):
        e, self.events = self.events, []
        return e


_installed = None


def install(watched):
    """Install (once per process) and return the monitor; later calls re-target it."""
    global _installed
    if _installed is None:
        _installed = Monitor(watched)
        sys.addaudithook(_installed.hook)
    else:
        _installed.watched = [os.path.realpath(w) for w in watched]
        _installed.events = []
    return _installed
