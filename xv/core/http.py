"""Worlds: the real xandikos server closed by a small driver.

Three front ends, all running the code under test unmodified:
  WsgiWorld  - the XandikosApp WSGI callable, invoked with a PEP-3333 environ
  AioWorld   - xandikos.web.main() (real argument parsing, real routing) on a
               unix socket in a background thread of this process
  ProcWorld  - `python -m xandikos` as a subprocess on a unix socket
"""

import argparse
import asyncio
import io
import logging
import os
import signal
import socket
import subprocess
import sys
import threading
import time
import urllib.parse
import weakref

from . import env

logging.getLogger().addHandler(logging.NullHandler())
logging.getLogger().setLevel(logging.ERROR)


class Resp:
    __slots__ = ("status", "headers", "body", "exc")

    def __init__(self, status, headers, body, exc=None):
        self.status = status
        self.headers = headers  # lower-cased names
        self.body = body
        self.exc = exc

    def __repr__(self):
        return "<Resp %s %r %d bytes%s>" % (self.status, self.headers.get("etag"), len(self.body), (" exc=" + self.exc) if self.exc else "")

    def brief(self):
        return {"status": self.status, "etag": self.headers.get("etag"), "len": len(self.body), "exc": self.exc}


# ---------------------------------------------------------------------------
# registry of live Store objects (transparent: only a weak reference is kept)

_live_stores = weakref.WeakSet()
_twin_stores = weakref.WeakSet()
_registry_installed = False
_twin_mode = [False]


class twin_context:
    """Stores created inside this context belong to a reference twin and are left out of fingerprints."""

    def __enter__(self):
        self.old = _twin_mode[0]
        _twin_mode[0] = True

    def __exit__(self, *a):
        _twin_mode[0] = self.old


def install_store_registry():
    global _registry_installed
    if _registry_installed:
        return
    import xandikos.store as xs

    orig = xs.Store.__init__

    def __init__(self, *a, **kw):
        orig(self, *a, **kw)
        try:
            (_twin_stores if _twin_mode[0] else _live_stores).add(self)
        except TypeError:
            pass

    xs.Store.__init__ = __init__
    _registry_installed = True


def _canon(v, depth=0):
    if depth > 6:
        return "..."
    if isinstance(v, dict):
        return "{" + ",".join(sorted("%s:%s" % (_canon(k, depth + 1), _canon(x, depth + 1)) for k, x in v.items())) + "}"
    if isinstance(v, (set, frozenset)):
        return "{" + ",".join(sorted(_canon(x, depth + 1) for x in v)) + "}"
    if isinstance(v, (list, tuple)):
        return "[" + ",".join(_canon(x, depth + 1) for x in v) + "]"
    if isinstance(v, (str, bytes, int, float, bool)) or v is None:
        return repr(v)
    return "<%s>" % type(v).__name__


def _dump_obj(o):
    out = []
    try:
        items = sorted(vars(o).items())
    except TypeError:
        return ""
    for k, v in items:
        if isinstance(v, (dict, set, frozenset, list)):
            if k == "extra_file_handlers":
                continue
            out.append("%s=%s" % (k, _canon(v)))
        elif isinstance(v, (int, bool)) and not k.startswith("__"):
            out.append("%s=%r" % (k, v))
    return ";".join(out)


def stores_fingerprint(root, cap_counters=None):
    """Generic dump of the cache-like attributes of every live Store under root.

    Nothing here names an attribute of xandikos: whatever dict/set/list valued
    attributes the Store, its index and its index manager have are dumped in
    sorted order, so renaming them inside xandikos changes nothing.
    """
    root = os.path.realpath(root)
    out = []
    for st in list(_live_stores):
        try:
            p = os.path.realpath(getattr(st, "path", "") or "")
        except Exception:
            continue
        if not (p == root or p.startswith(root + os.sep)):
            continue
        parts = [os.path.relpath(p, root), type(st).__name__, _dump_obj(st)]
        for sub in ("index", "index_manager"):
            so = getattr(st, sub, None)
            if so is not None:
                parts.append(sub + ":" + _dump_obj(so))
        out.append("|".join(parts))
    out.sort()
    return "\n".join(out)


def clear_store_caches():
    """A modelled restart: drop every functools cache of xandikos.web."""
    import gc

    import xandikos.web as web

    for name in dir(web):
        obj = getattr(web, name, None)
        cc = getattr(obj, "cache_clear", None)
        if callable(cc):
            cc()
    gc.collect()


# ---------------------------------------------------------------------------


def split_target(target):
    """Split a request target into (path, query)."""
    if "?" in target:
        p, q = target.split("?", 1)
    else:
        p, q = target, ""
    return p, q


class WsgiWorld:
    kind = "wsgi"
    own_cache = False
    _cache_fn = None

    def __init__(self, root, prefix="/", principal="/user/", index_threshold=None, paranoid=False, wrap_wellknown=False, own_cache=False):
        # own_cache: this application object stands for a second worker process on the same directory (gunicorn
        # workers = 2 in the repository's examples): it gets its own store cache instead of sharing the module-wide one
        self.own_cache = own_cache
        self._cache_fn = None
        self.root = root
        self.prefix = prefix if prefix.endswith("/") else prefix + "/"
        self.principal = principal
        self.index_threshold = index_threshold
        self.paranoid = paranoid
        self.wrap_wellknown = wrap_wellknown
        self.app = None
        install_store_registry()
        self.start()

    def start(self):
        from xandikos.web import XandikosApp, XandikosBackend

        try:
            asyncio.get_event_loop_policy().get_event_loop()
        except RuntimeError:
            asyncio.set_event_loop(asyncio.new_event_loop())
        self.backend = XandikosBackend(self.root, index_threshold=self.index_threshold, paranoid=self.paranoid)
        self.backend._mark_as_principal(self.principal)
        app = XandikosApp(self.backend, current_user_principal=self.principal)
        if self.wrap_wellknown:
            from xandikos.wsgi_helpers import WellknownRedirector

            app = WellknownRedirector(app, self.prefix)
        self.app = app

    def stop(self):
        self.app = None
        self.backend = None
        self._cache_fn = None

    def restart(self):
        self.stop()
        if not self.own_cache:
            clear_store_caches()
        self.start()

    def close(self):
        self.stop()
        if not self.own_cache:
            clear_store_caches()

    def _swap_cache(self):
        """(own_cache) make xandikos.web.open_store_from_path this worker's own cache for the duration of one request."""
        import functools

        import xandikos.web as web

        if self._cache_fn is None:
            shared = web.open_store_from_path
            self._cache_fn = functools.lru_cache(maxsize=shared.cache_info().maxsize)(shared.__wrapped__)
        saved = web.open_store_from_path
        web.open_store_from_path = self._cache_fn
        return saved

    def fingerprint(self):
        return stores_fingerprint(self.root)

    def request(self, method, target, headers=None, body=b""):
        """target is the full request target (including the route prefix)."""
        headers = dict(headers or {})
        path, query = split_target(target)
        script = self.prefix.rstrip("/")
        if script and (path == script or path.startswith(script + "/")):
            path_info_raw = path[len(script):]
            script_name = script
        elif script:
            # a front-end web server would not route this to the application
            return Resp(404, {}, b"(not routed to application)")
        else:
            path_info_raw = path
            script_name = ""
        path_info = urllib.parse.unquote_to_bytes(path_info_raw).decode("latin-1")
        environ = {
            "REQUEST_METHOD": method,
            "SCRIPT_NAME": script_name,
            "PATH_INFO": path_info,
            "QUERY_STRING": query,
            "SERVER_NAME": "localhost",
            "SERVER_PORT": "80",
            "SERVER_PROTOCOL": "HTTP/1.1",
            "wsgi.version": (1, 0),
            "wsgi.url_scheme": "http",
            "wsgi.input": io.BytesIO(body),
            "wsgi.errors": io.StringIO(),
            "wsgi.multithread": False,
            "wsgi.multiprocess": False,
            "wsgi.run_once": False,
            "HTTP_HOST": "localhost",
        }
        ct = None
        for k, v in headers.items():
            kl = k.lower()
            if kl == "content-type":
                ct = v
            elif kl == "content-length":
                pass
            else:
                environ["HTTP_" + k.upper().replace("-", "_")] = v
        if ct is not None:
            environ["CONTENT_TYPE"] = ct
        if body or method in ("PUT", "POST", "PROPPATCH", "REPORT", "PROPFIND", "MKCOL", "MKCALENDAR"):
            environ["CONTENT_LENGTH"] = str(len(body))
        out = {}

        def start_response(status, rheaders, exc_info=None):
            out["status"] = status
            out["headers"] = rheaders

        saved = self._swap_cache() if self.own_cache else None
        try:
            chunks = self.app(environ, start_response)
            data = b"".join(chunks)
        except Exception as e:  # an uncaught exception is a 500 in any WSGI server
            return Resp(500, {}, b"", exc="%s: %s" % (type(e).__name__, e))
        finally:
            if saved is not None:
                import xandikos.web as web

                web.open_store_from_path = saved
        st = out.get("status", "500 no status")
        try:
            code = int(str(st).split()[0])
        except ValueError:
            code = 500
        hd = {}
        for k, v in out.get("headers", []):
            hd[k.lower()] = v
        if method == "HEAD":
            data = b""
        return Resp(code, hd, data)


# ---------------------------------------------------------------------------
# socket client


def _parse_http_response(data, method):
    head, sep, rest = data.partition(b"\r\n\r\n")
    lines = head.split(b"\r\n")
    try:
        code = int(lines[0].split()[1])
    except (IndexError, ValueError):
        return Resp(0, {}, data, exc="unparseable response")
    hd = {}
    for ln in lines[1:]:
        if b":" in ln:
            k, v = ln.split(b":", 1)
            hd[k.decode("latin-1").strip().lower()] = v.decode("latin-1").strip()
    body = rest
    if hd.get("transfer-encoding", "").lower() == "chunked":
        out = b""
        while body:
            ln, _, body = body.partition(b"\r\n")
            try:
                n = int(ln.split(b";")[0], 16)
            except ValueError:
                break
            if n == 0:
                break
            out += body[:n]
            body = body[n + 2:]
        body = out
    elif "content-length" in hd and method != "HEAD":
        try:
            body = body[: int(hd["content-length"])]
        except ValueError:
            pass
    if method == "HEAD":
        body = b""
    return Resp(code, hd, body)


def socket_request(sockpath, method, target, headers=None, body=b"", timeout=30.0, raw_target=None, split_pause=None):
    headers = dict(headers or {})
    t = raw_target if raw_target is not None else target
    if isinstance(t, str):
        t = t.encode("utf-8")
    req = method.encode() + b" " + t + b" HTTP/1.1\r\n"
    if not any(k.lower() == "host" for k in headers):
        req += b"Host: localhost\r\n"
    req += b"Connection: close\r\n"
    for k, v in headers.items():
        req += k.encode("latin-1") + b": " + v.encode("latin-1") + b"\r\n"
    if body or method in ("PUT", "POST", "PROPPATCH", "REPORT", "PROPFIND", "MKCOL", "MKCALENDAR"):
        req += b"Content-Length: " + str(len(body)).encode() + b"\r\n"
    req += b"\r\n" + body
    s = socket.socket(socket.AF_UNIX, socket.SOCK_STREAM)
    s.settimeout(timeout)
    try:
        s.connect(sockpath)
        if split_pause and len(body) > 1:
            # a slow upload: the head and the first half of the body, a pause, then the rest (the server's read sees a short read)
            cut = len(req) - len(body) + len(body) // 2
            s.sendall(req[:cut])
            time.sleep(split_pause)
            s.sendall(req[cut:])
        else:
            s.sendall(req)
        chunks = []
        while True:
            try:
                d = s.recv(65536)
            except ConnectionResetError:
                break
            if not d:
                break
            chunks.append(d)
    except socket.timeout:
        return Resp(0, {}, b"", exc="timeout")
    finally:
        s.close()
    data = b"".join(chunks)
    if not data:
        return Resp(0, {}, b"", exc="empty response")
    r = _parse_http_response(data, method)
    if r.status == 500 and r.exc is None:
        r.exc = "500 from server"
    return r


def _wait_socket(path, timeout=15.0, proc=None):
    t0 = time.time()
    while time.time() - t0 < timeout:
        if proc is not None and proc.poll() is not None:
            return False
        if os.path.exists(path):
            s = socket.socket(socket.AF_UNIX, socket.SOCK_STREAM)
            try:
                s.connect(path)
                s.close()
                return True
            except OSError:
                pass
            finally:
                s.close()
        time.sleep(0.005)
    return False


_sock_counter = [0]


def _new_sockpath():
    _sock_counter[0] += 1
    return os.path.join(env.scratch(), "s%d.sock" % _sock_counter[0])


def serve_argv(root, sockpath, prefix, principal, autocreate=False, defaults=False, index_threshold=None, paranoid=False):
    argv = ["-d", root, "-l", sockpath, "--route-prefix", prefix, "--current-user-principal", principal, "--no-detect-systemd"]
    if autocreate:
        argv.append("--autocreate")
    if defaults:
        argv.append("--defaults")
    if index_threshold is not None:
        argv += ["--index-threshold", str(index_threshold)]
    if paranoid:
        argv.append("--paranoid")
    return argv


_signal_patched = False


def _patch_signal():
    """web.main() resets SIGINT, which only works in the main thread."""
    global _signal_patched
    if _signal_patched:
        return
    orig = signal.signal

    def sig(signum, handler):
        if threading.current_thread() is not threading.main_thread():
            return None
        return orig(signum, handler)

    signal.signal = sig
    _signal_patched = True


class AioWorld:
    """xandikos.web.main() in a background thread, real aiohttp server."""

    kind = "aiohttp"

    def __init__(self, root, prefix="/", principal="/user/", index_threshold=None, paranoid=False, autocreate=False, defaults=False):
        self.root = root
        self.prefix = prefix if prefix.endswith("/") else prefix + "/"
        self.principal = principal
        self.kw = dict(index_threshold=index_threshold, paranoid=paranoid, autocreate=autocreate, defaults=defaults)
        self.thread = None
        install_store_registry()
        _patch_signal()
        self.start()

    def start(self):
        from aiohttp import web as aioweb

        import xandikos.web as web

        self.sock = _new_sockpath()
        parser = argparse.ArgumentParser()
        web.add_parser(parser)
        options = parser.parse_args(serve_argv(self.root, self.sock, self.prefix, self.principal, **self.kw))
        self.runners = []
        runners = self.runners
        self.error = None

        class RecordingRunner(aioweb.AppRunner):
            def __init__(s, *a, **kw):
                kw.setdefault("access_log", None)
                super().__init__(*a, **kw)
                runners.append(s)

        ready = threading.Event()

        def run():
            loop = asyncio.new_event_loop()
            asyncio.set_event_loop(loop)
            self.loop = loop
            orig = aioweb.AppRunner
            aioweb.AppRunner = RecordingRunner
            try:
                self.task = loop.create_task(web.main(options, parser))

                def done(t):
                    if not t.cancelled() and t.exception() is not None:
                        self.error = "%s: %s" % (type(t.exception()).__name__, t.exception())
                        loop.stop()

                self.task.add_done_callback(done)
                ready.set()
                loop.run_forever()
            finally:
                aioweb.AppRunner = orig
                try:
                    loop.run_until_complete(loop.shutdown_default_executor())
                except Exception:
                    pass
                loop.close()

        # AppRunner is patched only while main() sets up; serialise start-ups
        with _start_lock:
            self.thread = threading.Thread(target=run, daemon=True)
            self.thread.start()
            ready.wait()
            ok = _wait_socket_or_error(self)
        if not ok:
            raise RuntimeError("aiohttp world failed to start: %s" % self.error)

    def stop(self):
        if self.thread is None:
            return
        loop = self.loop

        async def shutdown():
            self.task.cancel()
            for r in self.runners:
                try:
                    await r.cleanup()
                except Exception:
                    pass
            loop.stop()

        if self.thread.is_alive():
            asyncio.run_coroutine_threadsafe(shutdown(), loop)
            self.thread.join(10)
        self.thread = None
        try:
            os.unlink(self.sock)
        except OSError:
            pass

    def restart(self):
        self.stop()
        clear_store_caches()
        self.kw["autocreate"] = self.kw.get("autocreate", False)
        self.start()

    def close(self):
        self.stop()
        clear_store_caches()

    def fingerprint(self):
        return stores_fingerprint(self.root)

    def request(self, method, target, headers=None, body=b"", raw_target=None):
        return socket_request(self.sock, method, target, headers, body, raw_target=raw_target, split_pause=getattr(self, "slow_body", None))


_start_lock = threading.Lock()


def _wait_socket_or_error(w, timeout=15.0):
    t0 = time.time()
    while time.time() - t0 < timeout:
        if w.error:
            return False
        if os.path.exists(w.sock):
            s = socket.socket(socket.AF_UNIX, socket.SOCK_STREAM)
            try:
                s.connect(w.sock)
                return True
            except OSError:
                pass
            finally:
                s.close()
        time.sleep(0.002)
    return False


class ProcWorld:
    """`python -m xandikos` as a real subprocess."""

    kind = "proc"

    def __init__(self, root, prefix="/", principal="/user/", index_threshold=None, paranoid=False, autocreate=False, defaults=False, extra_env=None, audit=None):
        self.root = root
        self.prefix = prefix if prefix.endswith("/") else prefix + "/"
        self.principal = principal
        self.kw = dict(index_threshold=index_threshold, paranoid=paranoid, autocreate=autocreate, defaults=defaults)
        self.extra_env = extra_env or {}
        self.audit = audit  # (event log path, [watched prefixes]) -> run under hooked_main.py
        self.proc = None
        self.start()

    def start(self):
        self.sock = _new_sockpath()
        if self.audit:
            hm = os.path.join(os.path.dirname(os.path.abspath(__file__)), "hooked_main.py")
            argv = [sys.executable, "-W", "ignore", hm, self.audit[0], ":".join(self.audit[1]), "--"] + serve_argv(self.root, self.sock, self.prefix, self.principal, **self.kw)
        else:
            argv = [sys.executable, "-W", "ignore", "-m", "xandikos"] + serve_argv(self.root, self.sock, self.prefix, self.principal, **self.kw)
        e = dict(os.environ)
        e.update(self.extra_env)
        self.errlog = self.sock + ".err"
        self.proc = subprocess.Popen(argv, stdout=subprocess.DEVNULL, stderr=open(self.errlog, "wb"), env=e, cwd=env.scratch())
        if not _wait_socket(self.sock, proc=self.proc):
            err = ""
            try:
                err = open(self.errlog).read()[-2000:]
            except OSError:
                pass
            self.stop()
            raise RuntimeError("xandikos subprocess failed to start: " + err)

    def stop(self):
        if self.proc is not None:
            if self.proc.poll() is None:
                self.proc.terminate()
                try:
                    self.proc.wait(5)
                except subprocess.TimeoutExpired:
                    self.proc.kill()
                    self.proc.wait()
            self.proc = None
        for p in (self.sock, self.errlog):
            try:
                os.unlink(p)
            except OSError:
                pass

    def restart(self):
        self.stop()
        self.start()

    def close(self):
        self.stop()

    def fingerprint(self):
        return ""

    def request(self, method, target, headers=None, body=b"", raw_target=None):
        return socket_request(self.sock, method, target, headers, body, raw_target=raw_target, split_pause=getattr(self, "slow_body", None))
