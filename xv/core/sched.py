"""E4: preemption-bounded schedule explorer for real store operations.

Each operation runs in its own real thread.  A controller hands a baton
(per-thread semaphores), so exactly one managed thread runs between two
scheduling points and an execution is a pure function of its choice list.

Scheduling points
  (a) every file-system call on a mutable path of the store directory:
      os.open/stat/lstat/listdir/scandir/mkdir/rename/replace/unlink/remove/
      link/utime/rmdir/chmod, builtins.open/io.open, and write/close of files
      opened for writing.  Not points: anything under objects/ (loose objects
      are immutable and content-addressed; nothing reads one before a ref or
      index entry - a point - names it).
  (b) optionally (threads sharing one Store object) every executed line of
      xandikos/store/*.py that reads or writes an attribute of the shared
      Store / its index (found by a static scan, so no name is hard-coded).

Search: iterative context bounding (Musuvathi & Qadeer): all schedules with 0
preemptions, then 1, then 2, ...  A switch away from a still-runnable thread
costs one preemption.
"""

import builtins
import io
import os
import re
import sys
import threading

_real = {}
_state = threading.local()
_current = None  # the active Scheduler


class Deadlock(Exception):
    pass


class ReplayDivergence(Exception):
    pass


class _Managed:
    __slots__ = ("tid", "sem", "done", "result", "exc", "thread", "label", "started")

    def __init__(self, tid):
        self.tid = tid
        self.sem = threading.Semaphore(0)
        self.done = False
        self.result = None
        self.exc = None
        self.label = "start"
        self.started = False


class Execution:
    def __init__(self):
        self.points = []  # (index, running_tid, enabled tids in canonical order, label of chosen)
        self.choices = []
        self.results = None
        self.preemptions = 0
        self.trace = []  # (tid, label)


class Scheduler:
    def __init__(self, root, prefix=(), line_points=None, timeout=20.0):
        self.root = os.path.realpath(root)
        self.prefix = list(prefix)
        self.line_points = line_points  # set of (filename, lineno) or None
        self.timeout = timeout
        self.ctrl = threading.Semaphore(0)
        self.managed = []
        self.running = None
        self.exe = Execution()

    # -- called from managed threads ---------------------------------------

    def point(self, label):
        m = getattr(_state, "m", None)
        if m is None or getattr(_state, "inside", False):
            return
        _state.inside = True
        try:
            m.label = label
            self.ctrl.release()  # tell the controller we are parked
            if not m.sem.acquire(timeout=self.timeout * 4):
                raise Deadlock("thread %d never resumed" % m.tid)
        finally:
            _state.inside = False

    def _thread_main(self, m, body):
        _state.m = m
        _state.inside = False
        if not m.sem.acquire(timeout=self.timeout * 4):
            return
        if self.line_points:
            sys.settrace(self._trace)
        try:
            m.result = body()
        except BaseException as e:  # noqa
            m.exc = e
        finally:
            sys.settrace(None)
            m.done = True
            _state.m = None
            self.ctrl.release()

    def _trace(self, frame, event, arg):
        fn = frame.f_code.co_filename
        if event == "call":
            if fn in self._line_files:
                return self._trace
            return None
        if event == "line":
            if (fn, frame.f_lineno) in self.line_points:
                self.point("line:%s:%d" % (os.path.basename(fn), frame.f_lineno))
        return self._trace

    # -- controller --------------------------------------------------------

    def run(self, bodies):
        global _current
        install_shims()
        _current = self
        self._line_files = {f for (f, _) in (self.line_points or ())}
        self.managed = [_Managed(i) for i in range(len(bodies))]
        for m, b in zip(self.managed, bodies):
            m.thread = threading.Thread(target=self._thread_main, args=(m, b), daemon=True)
            m.thread.start()
        exe = self.exe
        running = None
        step = 0
        try:
            while True:
                enabled = [m for m in self.managed if not m.done]
                if not enabled:
                    break
                # canonical order: the running thread first if still enabled, then ascending ids
                order = []
                if running is not None and not running.done:
                    order.append(running)
                order += [m for m in enabled if m not in order]
                if step < len(self.prefix):
                    c = self.prefix[step]
                    if c >= len(order):
                        raise ReplayDivergence("choice %d at step %d but only %d enabled" % (c, step, len(order)))
                else:
                    c = 0
                chosen = order[c]
                if running is not None and not running.done and chosen is not running:
                    exe.preemptions += 1
                exe.points.append((step, running.tid if running is not None else None, [m.tid for m in order], running is not None and not running.done))
                exe.choices.append(c)
                exe.trace.append((chosen.tid, chosen.label))
                running = chosen
                step += 1
                chosen.sem.release()
                if not self.ctrl.acquire(timeout=self.timeout):
                    raise Deadlock("thread %d did not reach a scheduling point within %.0fs (blocked on a real lock?) after %r" % (chosen.tid, self.timeout, exe.trace[-3:]))
        finally:
            _current = None
        for m in self.managed:
            m.thread.join(1)
        exe.results = [(m.result, m.exc) for m in self.managed]
        return exe


# -- shims -----------------------------------------------------------------

_installed = False


def _path_is_point(p):
    s = _current
    if s is None or getattr(_state, "inside", False):
        return None
    if getattr(_state, "m", None) is None and not getattr(s, "any_thread", False):
        return None
    if isinstance(p, bytes):
        try:
            p = p.decode("utf-8")
        except UnicodeDecodeError:
            return None
    if not isinstance(p, str):
        return None
    ap = os.path.abspath(p)
    if not (ap == s.root or ap.startswith(s.root + os.sep)):
        return None
    rel = ap[len(s.root):].lstrip(os.sep)
    parts = rel.split(os.sep)
    if "objects" in parts and not getattr(s, "include_objects", False):
        return None
    return rel or "."


def _wrap(name, argidx=(0,)):
    real = _real[name]

    def w(*a, **kw):
        if _current is not None:
            for i in argidx:
                if i < len(a):
                    rel = _path_is_point(a[i])
                    if rel is not None:
                        lab = name
                        if name == "open" and len(a) > 1 and isinstance(a[1], int) and a[1] & (os.O_WRONLY | os.O_RDWR | os.O_CREAT):
                            lab = "open-w"
                        _current.point("%s:%s" % (lab, rel))
                        break
        return real(*a, **kw)

    w.__name__ = getattr(real, "__name__", name)
    return w


class _WFile:
    """Proxy for a file opened for writing on a mutable path: write and close are scheduling points."""

    def __init__(self, f, rel):
        object.__setattr__(self, "_f", f)
        object.__setattr__(self, "_rel", rel)

    def write(self, d):
        if _current is not None:
            _current.point("write:%s" % self._rel)
        return self._f.write(d)

    def writelines(self, ls):
        if _current is not None:
            _current.point("write:%s" % self._rel)
        return self._f.writelines(ls)

    def close(self):
        if _current is not None and not self._f.closed:
            _current.point("close:%s" % self._rel)
        return self._f.close()

    def __enter__(self):
        self._f.__enter__()
        return self

    def __exit__(self, *a):
        self.close()
        return False

    def __getattr__(self, n):
        return getattr(self._f, n)

    def __iter__(self):
        return iter(self._f)


def _open_wrapper(real, name):
    def w(file, mode="r", *a, **kw):
        rel = None
        if _current is not None and not isinstance(file, int):
            rel = _path_is_point(file)
            if rel is not None:
                _current.point("%s(%s):%s" % (name, mode, rel))
        f = real(file, mode, *a, **kw)
        if rel is not None and any(c in mode for c in "wax+"):
            return _WFile(f, rel)
        return f

    return w


def install_shims():
    global _installed
    if _installed:
        return
    _installed = True
    for name, idx in (("open", (0,)), ("stat", (0,)), ("lstat", (0,)), ("listdir", (0,)), ("scandir", (0,)), ("mkdir", (0,)), ("rename", (0, 1)), ("replace", (0, 1)),
                      ("unlink", (0,)), ("remove", (0,)), ("link", (0, 1)), ("utime", (0,)), ("rmdir", (0,)), ("chmod", (0,)), ("access", (0,)), ("readlink", (0,))):
        _real[name] = getattr(os, name)
        setattr(os, name, _wrap(name, idx))
    _real["builtins.open"] = builtins.open
    wrapped = _open_wrapper(builtins.open, "open")
    builtins.open = wrapped
    io.open = wrapped


def shim_log_names():
    return sorted(_real)


# -- static scan for shared-attribute lines ----------------------------------

_ATTR_RE = re.compile(r"\bself\.(_[A-Za-z]\w*|index\b|index_manager\b|desired\b|indexing_threshold\b)")


def shared_state_lines(store_pkg_dir):
    """Lines of xandikos/store/*.py whose source touches an underscore attribute of self (or the index objects)."""
    out = set()
    for fn in sorted(os.listdir(store_pkg_dir)):
        if not fn.endswith(".py"):
            continue
        path = os.path.join(store_pkg_dir, fn)
        with _real.get("builtins.open", builtins.open)(path, "r", encoding="utf-8") as f:
            for i, ln in enumerate(f, 1):
                s = ln.strip()
                if s.startswith("#") or s.startswith("def ") or s.startswith('"""'):
                    continue
                if _ATTR_RE.search(ln) and "repo" not in _ATTR_RE.search(ln).group(1):
                    out.add((path, i))
    return out


# -- iterative context bounding ------------------------------------------------


def explore(run_one, bound, max_executions=None, on_execution=None, part=None):
    """run_one(prefix) -> Execution.  Explores every schedule with at most `bound` preemptions.

    Returns (executions, capped).  The default continuation after a prefix is
    always choice 0 (keep running the current thread / lowest id), so every
    execution runs to completion.
    """
    count = [0]
    capped = [False]

    def rec(prefix):
        if max_executions is not None and count[0] >= max_executions:
            capped[0] = True
            return
        x = run_one(prefix)
        count[0] += 1
        if on_execution:
            on_execution(x)
        # preemptions used before each point
        used = 0
        pre = []
        for i, (step, rtid, order, running_enabled) in enumerate(x.points):
            pre.append(used)
            if running_enabled and x.choices[i] != 0:
                used += 1
        for i in range(len(prefix), len(x.points)):
            step, rtid, order, running_enabled = x.points[i]
            if part is not None and not prefix and i % part[1] != part[0]:
                continue  # another worker explores the deviations at this top-level point
            for alt in range(1, len(order)):
                cost = pre[i] + (1 if running_enabled else 0)
                if cost > bound:
                    continue
                rec(list(x.choices[:i]) + [alt])

    rec([])
    return count[0], capped[0]


# -- fault injection (environment deviations for E1) ---------------------------

MUTATING_PREFIXES = ("open-w:", "open(w", "open(a", "open(x", "open(r+", "mkdir:", "rename:", "replace:", "write:", "close:", "link:")


class FaultInjector:
    """Makes the k-th mutating file-system call under root fail with OSError(errno).

    Installed as the shim controller for the duration of ONE request; counts in
    every thread (updates run in executor threads).  With k=None it only counts.
    """

    any_thread = True
    include_objects = True

    def __init__(self, root, k=None, err=28):
        self.root = os.path.realpath(root)
        self.k = k
        self.err = err
        self.count = 0
        self.fired = None
        self.labels = []
        self.lock = threading.Lock()

    def point(self, label):
        if not label.startswith(MUTATING_PREFIXES):
            return
        with self.lock:
            i = self.count
            self.count += 1
            self.labels.append(label)
        if self.k is not None and i == self.k and self.fired is None:
            self.fired = label
            raise OSError(self.err, os.strerror(self.err))

    def __enter__(self):
        global _current
        install_shims()
        self._saved = _current
        _current = self
        return self

    def __exit__(self, *a):
        global _current
        _current = self._saved
        return False
