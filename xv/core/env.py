"""Environment: scratch space, seed, tier, repo binding."""

import atexit
import os
import shutil
import sys
import tempfile
import time

HOME = os.environ.get("XV_HOME", os.path.dirname(os.path.dirname(os.path.dirname(os.path.abspath(__file__)))))
REPO = os.environ.get("XV_REPO", "/repo")
SEED = int(os.environ.get("VERIF_SEED", "0") or 0)
_SCRATCH_BASE = os.environ.get("XV_SCRATCH") or ("/dev/shm" if os.path.isdir("/dev/shm") else tempfile.gettempdir())

_scratch = None
_owner_pid = None


def tier(argv_tier=None):
    t = argv_tier or os.environ.get("VERIF_TIER") or "quick"
    if t not in ("quick", "thorough"):
        t = "quick"
    return t


def scratch():
    """Per-process scratch directory on tmpfs, removed at exit."""
    global _scratch, _owner_pid
    if _scratch is None or _owner_pid != os.getpid():
        _scratch = tempfile.mkdtemp(prefix="xv-%d-" % os.getpid(), dir=_SCRATCH_BASE)
        _owner_pid = os.getpid()
        atexit.register(_cleanup, _scratch, _owner_pid)
    return _scratch


def _cleanup(path, pid):
    if os.getpid() == pid:
        shutil.rmtree(path, ignore_errors=True)


_counter = [0]


def fresh_dir(prefix="w"):
    _counter[0] += 1
    p = os.path.join(scratch(), "%s%d" % (prefix, _counter[0]))
    os.mkdir(p)
    return p


def bind_repo():
    """Make sure xandikos is imported from the tree under test."""
    import xandikos

    f = os.path.realpath(xandikos.__file__)
    if not f.startswith(os.path.realpath(REPO) + os.sep):
        sys.stderr.write("HARNESS-ERROR: xandikos imported from %s, not %s\n" % (f, REPO))
        sys.exit(2)
    return f


class Timer:
    def __init__(self):
        self.t0 = time.time()

    def s(self):
        return round(time.time() - self.t0, 3)
