"""Independent evaluator for CARDDAV:addressbook-query filters (RFC 6352 section 10.5).

Filters are plain data:
  filt(test, [propfilter...])            test in anyof|allof (None = default anyof)
  pf(name, not_defined=False, text=None, param=None)
  text = (needle, match_type or None, collation or None, negate)
  param = (name, not_defined, text or None)

RFC 6352 10.5.1: a prop-filter matches if it is empty and a property of that
name exists; or it contains is-not-defined and no such property exists; or some
instance of the property satisfies its text-match / param-filter.
10.5.4: text-match compares the property (or parameter) value with the text
using match-type (contains by default) under the collation; negate-condition
inverts the result.  Property and parameter names are case-insensitive.
"""

from xml.sax.saxutils import escape, quoteattr

from . import ical


def filt(test, pfs):
    return ("filter", test, tuple(pfs))


def pf(name, not_defined=False, text=None, param=None, test=None):
    """test: the prop-filter's own test attribute (anyof default / allof) joining its text-match and param-filter"""
    return ("pf", name, not_defined, text, param, test)


def _text_xml(t):
    needle, mt, coll, neg = t
    a = ""
    if coll is not None:
        a += " collation=%s" % quoteattr(coll)
    if mt is not None:
        a += " match-type=%s" % quoteattr(mt)
    if neg:
        a += ' negate-condition="yes"'
    return "<C:text-match%s>%s</C:text-match>" % (a, escape(needle))


def to_xml(f):
    _, test, pfs = f
    a = ' test="%s"' % test if test else ""
    inner = ""
    for (_, name, nd, text, param, ptest) in pfs:
        x = ""
        if nd:
            x += "<C:is-not-defined/>"
        if text is not None:
            x += _text_xml(text)
        if param is not None:
            pn, pnd, pt = param
            y = "<C:is-not-defined/>" if pnd else ""
            if pt is not None:
                y += _text_xml(pt)
            x += "<C:param-filter name=%s>%s</C:param-filter>" % (quoteattr(pn), y)
        inner += "<C:prop-filter name=%s%s>%s</C:prop-filter>" % (quoteattr(name), (' test="%s"' % ptest) if ptest else "", x)
    return "<C:filter%s>%s</C:filter>" % (a, inner)


def _fold_case(s, coll):
    if coll == "i;octet":
        return s
    if coll == "i;ascii-casemap":
        return "".join(chr(ord(ch) - 32) if "a" <= ch <= "z" else ch for ch in s)
    if coll == "i;unicode-casemap":
        return s.casefold()
    raise ValueError("unsupported collation %r" % coll)


def text_matches(t, value, default_collation):
    needle, mt, coll, neg = t
    coll = coll or default_collation
    mt = mt or "contains"
    v = _fold_case(value, coll)
    n = _fold_case(needle, coll)
    if mt == "equals":
        r = v == n
    elif mt == "contains":
        r = n in v
    elif mt == "starts-with":
        r = v.startswith(n)
    elif mt == "ends-with":
        r = v.endswith(n)
    else:
        raise ValueError(mt)
    return (not r) if neg else r


def prop_filter_matches(f, card, default_collation):
    _, name, nd, text, param, ptest = f
    insts = card.getall(name.upper())
    if nd:
        return not insts
    if not insts:
        return False
    for p in insts:
        conds = []
        if text is not None:
            conds.append(text_matches(text, ical.unescape_text(p.value), default_collation))
        if param is not None:
            pn, pnd, pt = param
            vals = p.params.get(pn.upper())
            if pnd:
                conds.append(vals is None)
            elif vals is None:
                conds.append(False)
            elif pt is not None:
                conds.append(any(text_matches(pt, v, default_collation) for v in vals))
            else:
                conds.append(True)
        # 10.5.1: the conditions are joined per property instance by the prop-filter's test attribute
        if not conds or (all(conds) if ptest == "allof" else any(conds)):
            return True
    return False


def matches(f, data, default_collation="i;unicode-casemap"):
    _, test, pfs = f
    card = ical.parse_vcard(data)
    if not pfs:
        return True
    rs = [prop_filter_matches(x, card, default_collation) for x in pfs]
    return all(rs) if test == "allof" else any(rs)
