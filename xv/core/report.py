"""Violation collection, known findings, evidence files."""

import hashlib
import json
import os
import sys

from . import env

KNOWN_PATH = os.path.join(env.HOME, "known_findings.json")
# evidence/replays go to XV_OUT when set (used when checking scratch copies of the repo)
OUT = os.environ.get("XV_OUT") or env.HOME


def load_known():
    try:
        with open(KNOWN_PATH) as f:
            data = json.load(f)
    except FileNotFoundError:
        return []
    return data.get("findings", [])


def _jsonable(o):
    if isinstance(o, bytes):
        try:
            return o.decode("utf-8")
        except UnicodeDecodeError:
            return {"__bytes_latin1__": o.decode("latin-1")}
    if isinstance(o, (set, frozenset)):
        return sorted((_jsonable(x) for x in o), key=repr)
    if isinstance(o, tuple):
        return [_jsonable(x) for x in o]
    if isinstance(o, list):
        return [_jsonable(x) for x in o]
    if isinstance(o, dict):
        return {str(k): _jsonable(v) for k, v in o.items()}
    if isinstance(o, (str, int, float, bool)) or o is None:
        return o
    return repr(o)


class Reporter:
    """Collects violations by signature; decides the exit status at the end.

    A signature is a short model-level string.  Signatures listed with
    status "known" in known_findings.json print KNOWN-FINDING and do not fail
    the run; everything else prints VIOLATION and fails it.  "fixed" entries
    suppress nothing.
    """

    def __init__(self, prop, tier):
        self.prop = prop
        self.tier = tier
        self.timer = env.Timer()
        self.by_sig = {}  # sig -> {"summary","witness","count"}
        self.known = {k["key"]: k for k in load_known() if k.get("property") == prop and k.get("status") == "known"}
        self.harness_errors = []
        self.notes = []

    def violation(self, sig, summary, witness):
        e = self.by_sig.get(sig)
        if e is None:
            self.by_sig[sig] = {"summary": summary, "witness": witness, "count": 1}
        else:
            e["count"] += 1
            # keep the smallest witness
            try:
                if len(json.dumps(_jsonable(witness))) < len(json.dumps(_jsonable(e["witness"]))):
                    e["witness"] = witness
                    e["summary"] = summary
            except Exception:
                pass

    def merge(self, other_by_sig):
        for sig, e in other_by_sig.items():
            mine = self.by_sig.get(sig)
            if mine is None:
                self.by_sig[sig] = dict(e)
            else:
                mine["count"] += e["count"]
                if len(json.dumps(_jsonable(e["witness"]))) < len(json.dumps(_jsonable(mine["witness"]))):
                    mine["witness"] = e["witness"]
                    mine["summary"] = e["summary"]

    def is_known(self, sig):
        return sig in self.known

    def harness_error(self, msg):
        self.harness_errors.append(msg)

    def finish(self, level, coverage, assumptions=None, extra=None):
        new = []
        known_hit = []
        for sig in sorted(self.by_sig):
            e = self.by_sig[sig]
            if sig in self.known:
                known_hit.append(sig)
                print("KNOWN-FINDING: property=%s %s -- %s (x%d)" % (self.prop, sig, self.known[sig].get("summary", e["summary"]), e["count"]))
            else:
                new.append(sig)
        rdir = os.path.join(OUT, "replays", self.prop)
        for sig in new:
            e = self.by_sig[sig]
            os.makedirs(rdir, exist_ok=True)
            h = hashlib.sha1(sig.encode()).hexdigest()[:12]
            path = os.path.join(rdir, "%s.json" % h)
            with open(path, "w") as f:
                json.dump(_jsonable({"property": self.prop, "signature": sig, "summary": e["summary"], "count": e["count"], "witness": e["witness"]}), f, indent=1, ensure_ascii=False)
            print("VIOLATION property=%s replay=%s" % (self.prop, path))
            print("  signature: %s" % sig)
            print("  summary: %s (x%d)" % (e["summary"], e["count"]))
        for m in self.harness_errors:
            print("HARNESS-ERROR: %s" % m)
        not_repro = sorted(set(self.known) - set(known_hit))
        cov = dict(coverage)
        cov["known_findings_printed"] = known_hit
        cov["known_not_reproduced"] = not_repro
        cov["violation_signatures"] = new
        ev = {
            "property_id": self.prop,
            "tier": self.tier,
            "seed": env.SEED,
            "level": level,
            "coverage": _jsonable(cov),
            "assumptions": assumptions or [],
            "wall_s": self.timer.s(),
            "violations": len(new),
        }
        if extra:
            ev.update(_jsonable(extra))
        os.makedirs(os.path.join(OUT, "evidence"), exist_ok=True)
        with open(os.path.join(OUT, "evidence", "%s.json" % self.prop), "w") as f:
            json.dump(ev, f, indent=1, ensure_ascii=False)
        keys = ("states", "transitions", "evaluations", "distinct_nontrivial", "traces_validated_against_impl", "exhaustive")
        print("SUMMARY property=%s tier=%s %s known=%d new=%d wall=%.1fs" % (
            self.prop, self.tier, " ".join("%s=%s" % (k, cov[k]) for k in keys if k in cov), len(known_hit), len(new), ev["wall_s"]))
        sys.stdout.flush()
        if self.harness_errors:
            return 2
        return 1 if new else 0
