"""Finite body alphabets used by the explorations."""


def ics(uid, summary="s", extra="", comp="VEVENT", dtstart="20200101T100000Z", crlf=True, order="normal"):
    props = [
        "UID:%s" % uid,
        "DTSTAMP:20200101T000000Z",
        "DTSTART:%s" % dtstart,
        "SUMMARY:%s" % summary,
    ]
    if order == "reversed":
        props = list(reversed(props))
    lines = ["BEGIN:VCALENDAR", "VERSION:2.0", "PRODID:-//xv//EN", "BEGIN:%s" % comp] + props
    if extra:
        lines += extra.split("\n")
    lines += ["END:%s" % comp, "END:VCALENDAR"]
    nl = "\r\n" if crlf else "\n"
    return (nl.join(lines) + nl).encode("utf-8")


def vcf(uid, fn="Jo Doe", extra=""):
    lines = ["BEGIN:VCARD", "VERSION:3.0", "UID:%s" % uid, "FN:%s" % fn, "N:Doe;Jo;;;"]
    if extra:
        lines += extra.split("\n")
    lines += ["END:VCARD"]
    return ("\r\n".join(lines) + "\r\n").encode("utf-8")


# calendar alphabet: X / X2 share a UID (an overwrite that changes content),
# XR is X with properties in another order (same stored form is allowed),
# Z has another UID, BAD is not iCalendar.
CAL_BODIES = {
    "X": ics("uid-1", "alpha"),
    "X2": ics("uid-1", "alphb"),  # differs from X in a single byte
    "XR": ics("uid-1", "alpha", order="reversed"),
    "Z": ics("uid-2", "zulu"),
    # text outside the Basic Multilingual Plane (emoji, mathematical letters, CJK extension B) next to Latin-1 and BMP CJK
    "ZE": ics("uid-2", "zulu \U0001F600 \U0001D518 \U00020000 \u00e9 \u65e5"),
    "T": ics("uid-3", "todo", comp="VTODO"),
    "BAD": b"this is not a calendar\r\n",
    "TRUNC": ics("uid-9", "trunc")[:-16],
}

TZ_BLOCK = "\r\n".join([
    "BEGIN:VTIMEZONE", "TZID:Europe/Paris", "BEGIN:STANDARD", "DTSTART:19701025T030000",
    "TZOFFSETFROM:+0200", "TZOFFSETTO:+0100", "TZNAME:CET", "END:STANDARD", "END:VTIMEZONE"])


def ics_tz_first(uid, summary="tz"):
    """An object whose first component is a VTIMEZONE (no UID); the UID is in the second."""
    return ("BEGIN:VCALENDAR\r\nVERSION:2.0\r\nPRODID:-//xv//EN\r\n" + TZ_BLOCK + "\r\nBEGIN:VEVENT\r\nUID:%s\r\nDTSTAMP:20200101T000000Z\r\n"
            "DTSTART;TZID=Europe/Paris:20200101T100000\r\nSUMMARY:%s\r\nEND:VEVENT\r\nEND:VCALENDAR\r\n" % (uid, summary)).encode("utf-8")


def ics_no_uid(summary="nouid"):
    return ("BEGIN:VCALENDAR\r\nVERSION:2.0\r\nPRODID:-//xv//EN\r\nBEGIN:VEVENT\r\nDTSTAMP:20200101T000000Z\r\n"
            "DTSTART:20200101T100000Z\r\nSUMMARY:%s\r\nEND:VEVENT\r\nEND:VCALENDAR\r\n" % summary).encode("utf-8")


# UID alphabet for C06: case, space, escaped comma, VTIMEZONE-first, no UID
UID_BODIES = {
    "U1a": ics("u1", "one"),
    "U1b": ics("u1", "uno"),
    "UC": ics("U1", "upper"),
    "USP": ics("u 1", "space"),
    "UESC": ics("u\\,1", "escaped"),
    "U2": ics("u2", "two"),
    "TZ1": ics_tz_first("u1", "tzfirst"),
    "NOUID": ics_no_uid(),
    "NOUID2": ics_no_uid("nouid2"),
}

LONG_UID = "long-uid-" + "0123456789" * 8  # 89 characters: the stored UID line is folded
UID_BODIES.update({
    "UL1a": ics(LONG_UID, "long one"),
    "UL1b": ics(LONG_UID, "long uno"),
    "ULP": ics(LONG_UID[:70], "prefix of the long uid"),
})


def ics_repeated(uid, summary, attendees, exdates, cats):
    """An event with properties that occur several times (ATTENDEE, EXDATE, CATEGORIES)."""
    extra = "\n".join(["RRULE:FREQ=DAILY;COUNT=10"] + ["ATTENDEE:mailto:%s@example.com" % a for a in attendees] + ["EXDATE:202001%02dT100000Z" % d for d in exdates] + ["CATEGORIES:%s" % c for c in cats])
    return ics(uid, summary, extra=extra)


# R1 / R2 share the UID and SOME of the repeated values (an edit that replaces one attendee, one exception date, one category)
CAL_BODIES["R1"] = ics_repeated("uid-1", "repeated", ["ann", "bob", "cy"], [3, 4], ["work", "urgent"])
CAL_BODIES["R2"] = ics_repeated("uid-1", "repeated", ["ann", "bob", "dan"], [3, 5], ["work", "later"])

CARD_BODIES = {
    "K": vcf("card-1", "Jo Doe"),
    "KE": vcf("card-1", "Jo \U0001F600 \U00020000 Doe"),
    "K2": vcf("card-1", "Jo Dof"),
    "L": vcf("card-2", "Li Roe"),
    "KBAD": b"FN:no begin\r\n",
}

ALL_BODIES = {}
ALL_BODIES.update(CAL_BODIES)
ALL_BODIES.update(CARD_BODIES)
ALL_BODIES.update(UID_BODIES)
# plain files (stored byte for byte, never validated)
ALL_BODIES["TXT"] = b"".join(b"line %03d of a plain text file\n" % i for i in range(40))
ALL_BODIES["TXT2"] = b"".join(b"LINE %03d of another plain text file\r\n" % i for i in range(55))
# a valid calendar that is not in the server's canonical form (properties in another order, bare LF): stored as it is
# when it is uploaded under a media type the server does not validate
# (lower-case property name, a 100-character line that is not folded, bare LF, reversed order)
ALL_BODIES["XRAW"] = ics("uid-raw", "raw", crlf=False, order="reversed", extra="description:" + "d" * 100).replace(b"SUMMARY:", b"summary:")
ALL_BODIES["XRAW2"] = ics("uid-raw2", "raw two", crlf=False, order="reversed", extra="description:" + "e" * 100).replace(b"SUMMARY:", b"summary:")
# not a calendar and not a card: what a collection's own configuration file looks like (uploaded under reserved names)
ALL_BODIES["CFG"] = b"[DEFAULT]\ntype = addressbook\ndisplayname = hijacked\ncolor = #000000\n"

CT_ICS = "text/calendar; charset=utf-8"
CT_VCF = "text/vcard; charset=utf-8"


def content_type_for(name):
    if name.lower().endswith(".ics"):
        return CT_ICS
    if name.lower().endswith(".vcf"):
        return CT_VCF
    return "application/octet-stream"


def ct_for_body(bid):
    return CT_VCF if bid in CARD_BODIES else CT_ICS
