"""E5: suspension-point injector for the single-process (asyncio) server.

In one server process a request only gives way to other requests where it
awaits `to_thread(...)` (loading a member, updating a member) and where it
reads its request body (on the aiohttp front end the body may arrive later than
the head): `request.content.read()`, the interface both front ends share.
Creates and deletes run inline.  So the interleavings of a request R with one other
request W are exactly: W runs to completion at one of R's suspension points.
This module enumerates them: `xandikos.web.to_thread` is replaced for the
duration of R by a coroutine that counts the suspension points and, at the
chosen one, first handles W on the same application object and then performs
the original call synchronously.  No threads are involved, so every run is
deterministic.
"""

import asyncio
import io
import urllib.parse


class Injector:
    def __init__(self, app, inject_at=None, other=None):
        self.app = app
        self.inject_at = inject_at
        self.other = other  # (method, target, headers, body) or None
        self.count = 0
        self.other_response = None
        self.labels = []
        self._in_other = False

    async def _inject(self):
        # the other request runs to completion; its own suspension points are not points of the outer request
        self._in_other = True
        try:
            self.other_response = await handle(self.app, *self.other)
        finally:
            self._in_other = False

    async def to_thread(self, func, *a, **kw):
        if self._in_other:
            return func(*a, **kw)
        k = self.count
        self.count += 1
        self.labels.append(getattr(func, "__name__", repr(func)))
        if self.other is not None and k == self.inject_at and self.other_response is None:
            await self._inject()
        return func(*a, **kw)

    async def body_point(self):
        """The request body arrives late: another request is handled completely before it is there."""
        if self._in_other:
            return
        k = self.count
        self.count += 1
        self.labels.append("read-body")
        if self.other is not None and k == self.inject_at and self.other_response is None:
            await self._inject()

    def __enter__(self):
        import xandikos.web as web

        if not hasattr(web, "to_thread"):
            raise BindError("xandikos.web has no attribute to_thread: the harness cannot place requests at thread hand-offs")
        self._saved = web.to_thread
        web.to_thread = self.to_thread
        _CURRENT.append(self)
        return self

    def __exit__(self, *a):
        import xandikos.web as web

        web.to_thread = self._saved
        _CURRENT.pop()
        return False


class BindError(Exception):
    """The harness cannot attach to the code under test (renamed entry point): a harness fault, never a violation."""


_CURRENT = []


class _Content:
    """request.content of the request under the injector: reading it is a suspension point."""

    def __init__(self, inner):
        self._inner = inner

    async def read(self, *a, **kw):
        if _CURRENT:
            await _CURRENT[-1].body_point()
        return await self._inner.read(*a, **kw)

    def __getattr__(self, name):
        return getattr(self._inner, name)


def _environ(method, target, headers, body, script_name=""):
    path, _, query = target.partition("?")
    env = {
        "REQUEST_METHOD": method, "SCRIPT_NAME": script_name, "PATH_INFO": urllib.parse.unquote_to_bytes(path[len(script_name):]).decode("latin-1"),
        "QUERY_STRING": query, "SERVER_NAME": "localhost", "SERVER_PORT": "80", "SERVER_PROTOCOL": "HTTP/1.1", "wsgi.version": (1, 0),
        "wsgi.url_scheme": "http", "wsgi.input": io.BytesIO(body), "wsgi.errors": io.StringIO(), "HTTP_HOST": "localhost", "CONTENT_LENGTH": str(len(body)),
    }
    for k, v in (headers or {}).items():
        if k.lower() == "content-type":
            env["CONTENT_TYPE"] = v
        else:
            env["HTTP_" + k.upper().replace("-", "_")] = v
    return env


async def handle(app, method, target, headers=None, body=b""):
    """One request through the real request handling of the application object, on the running loop."""
    from xandikos.webdav import WSGIRequest

    env = _environ(method, target, headers, body)
    request = WSGIRequest(env)
    if not hasattr(request, "content") or not hasattr(app, "_handle_request"):
        raise BindError("WSGIRequest.content / WebDAVApp._handle_request not found: the harness cannot run requests on its own event loop")
    request.content = _Content(request.content)
    resp = await app._handle_request(request, {"SCRIPT_NAME": env["SCRIPT_NAME"], "ORIGINAL_ENVIRON": env})
    out = {}

    def start_response(status, hdrs, exc_info=None):
        out["status"] = status
        out["headers"] = hdrs

    chunks = resp.for_wsgi(start_response)
    data = b"".join(chunks)
    code = int(str(out["status"]).split()[0])
    return code, {k.lower(): v for k, v in out["headers"]}, data


def run(app, request, inject_at=None, other=None):
    """Handle `request` with `other` injected at suspension point `inject_at`. Returns (response, other_response, points)."""
    loop = asyncio.new_event_loop()
    try:
        inj = Injector(app, inject_at, other)
        with inj:
            resp = loop.run_until_complete(handle(app, *request))
        return resp, inj.other_response, inj.count, inj.labels
    finally:
        loop.close()
