"""Child of the crash-point enumerator: opens a store and performs ONE operation.

usage: crash_child.py <kind> <store path> <json op>
op: ["put", name, body-id] | ["delete", name] | ["set", property, value]
    | ["http", method, name, body-id or null, content-type or null]   (the same operation as ONE request to the WSGI application
      whose root is the parent directory of the store; PROPPATCH: name = property key, body-id = value)
"""
import json
import os
import sys

here = os.path.dirname(os.path.abspath(__file__))
sys.path[:] = [p for p in sys.path if os.path.abspath(p or ".") != here]
sys.path.insert(0, os.path.dirname(os.path.dirname(here)))

from xv.core import bodies as B  # noqa: E402
from xv.core import storesys  # noqa: E402

kind, path, op = sys.argv[1], sys.argv[2], json.loads(sys.argv[3])
if op[0] == "http":
    from xv.core import dav, http  # noqa: E402

    w = http.WsgiWorld(os.path.dirname(path))
    coll = "/" + os.path.basename(path) + "/"
    _, method, name, bid, ctype = op
    if method == "PROPPATCH":
        r = w.request("PROPPATCH", coll, dav.XML_CT, dav.proppatch_body(sets=[({"displayname": dav.P_DISPLAYNAME, "description": dav.P_CALDESC, "color": dav.P_CALCOLOR}[name], bid)]))
        ok = r.status == 207 and b"200 OK" in r.body
    else:
        r = w.request(method, coll + name, {"Content-Type": ctype} if ctype else {}, B.ALL_BODIES[bid] if bid else b"")
        ok = r.status in (200, 201, 204)
    if not ok:
        raise SystemExit("request failed: %s %s %s" % (r.status, r.exc, r.body[:200]))
    print("ACK")
    raise SystemExit(0)
st = storesys.open_store(kind, path)
if op[0] == "put":
    st.import_one(op[1], "text/calendar" if op[1].endswith(".ics") else "text/vcard", [B.ALL_BODIES[op[2]]])
elif op[0] == "delete":
    st.delete_one(op[1])
elif op[0] == "set":
    getattr(st, "set_" + op[1])(op[2])
else:
    raise SystemExit("unknown op")
print("ACK")
