"""Child of the crash-point enumerator: opens a store and performs ONE operation.

usage: crash_child.py <kind> <store path> <json op>
op: ["put", name, body-id] | ["delete", name] | ["set", property, value]
"""
import json
import os
import sys

here = os.path.dirname(os.path.abspath(__file__))
sys.path[:] = [p for p in sys.path if os.path.abspath(p or ".") != here]
sys.path.insert(0, os.path.dirname(os.path.dirname(here)))

from xv.core import bodies as B  # noqa: E402
from xv.core import storesys  # noqa: E402

kind, path, op = sys.argv[1], sys.argv[2], json.loads(sys.argv[3])
st = storesys.open_store(kind, path)
if op[0] == "put":
    st.import_one(op[1], "text/calendar" if op[1].endswith(".ics") else "text/vcard", [B.ALL_BODIES[op[2]]])
elif op[0] == "delete":
    st.delete_one(op[1])
elif op[0] == "set":
    getattr(st, "set_" + op[1])(op[2])
else:
    raise SystemExit("unknown op")
print("ACK")
