"""Client-side DAV helpers: request bodies and multistatus parsing."""

import re
import urllib.parse
import xml.etree.ElementTree as ET
from xml.sax.saxutils import escape

DAV = "DAV:"
CAL = "urn:ietf:params:xml:ns:caldav"
CARD = "urn:ietf:params:xml:ns:carddav"
CS = "http://calendarserver.org/ns/"
ICAL = "http://apple.com/ns/ical/"
INF = "http://inf-it.com/ns/ab/"

P_GETETAG = "{DAV:}getetag"
P_RESOURCETYPE = "{DAV:}resourcetype"
P_DISPLAYNAME = "{DAV:}displayname"
P_SYNCTOKEN = "{DAV:}sync-token"
P_CTAG_CS = "{%s}getctag" % CS
P_CTAG_DAV = "{DAV:}getctag"
P_CALDESC = "{%s}calendar-description" % CAL
P_CALCOLOR = "{%s}calendar-color" % ICAL
P_CALORDER = "{%s}calendar-order" % ICAL
P_ABDESC = "{%s}addressbook-description" % CARD
P_ABCOLOR = "{%s}addressbook-color" % INF
P_COMMENT = "{DAV:}comment"
P_CALDATA = "{%s}calendar-data" % CAL
P_ADDRDATA = "{%s}address-data" % CARD
P_CONTENTTYPE = "{DAV:}getcontenttype"

XML_CT = {"Content-Type": "application/xml; charset=utf-8"}


def _tag_xml(tag, inner="", attrs=""):
    m = re.match(r"\{(.*)\}(.*)", tag)
    ns, local = m.group(1), m.group(2)
    if inner == "" or inner is None:
        return '<x:%s xmlns:x="%s"%s/>' % (local, escape(ns), attrs)
    return '<x:%s xmlns:x="%s"%s>%s</x:%s>' % (local, escape(ns), attrs, inner, local)


def propfind_body(props):
    return ('<?xml version="1.0" encoding="utf-8"?><D:propfind xmlns:D="DAV:"><D:prop>%s</D:prop></D:propfind>' % "".join(_tag_xml(p) for p in props)).encode("utf-8")


def proppatch_body(sets=(), removes=()):
    out = '<?xml version="1.0" encoding="utf-8"?><D:propertyupdate xmlns:D="DAV:">'
    for tag, text in sets:
        out += "<D:set><D:prop>%s</D:prop></D:set>" % _tag_xml(tag, escape(text) if text is not None else "")
    for tag in removes:
        out += "<D:remove><D:prop>%s</D:prop></D:remove>" % _tag_xml(tag)
    out += "</D:propertyupdate>"
    return out.encode("utf-8")


def mkcol_body(resourcetypes=(), sets=()):
    rt = "".join(_tag_xml(t) for t in resourcetypes)
    out = '<?xml version="1.0" encoding="utf-8"?><D:mkcol xmlns:D="DAV:"><D:set><D:prop>'
    if rt:
        out += "<D:resourcetype>%s</D:resourcetype>" % rt
    for tag, text in sets:
        out += _tag_xml(tag, escape(text))
    out += "</D:prop></D:set></D:mkcol>"
    return out.encode("utf-8")


def mkcalendar_body(sets=()):
    out = '<?xml version="1.0" encoding="utf-8"?><C:mkcalendar xmlns:D="DAV:" xmlns:C="%s"><D:set><D:prop>' % CAL
    for tag, text in sets:
        out += _tag_xml(tag, escape(text))
    out += "</D:prop></D:set></C:mkcalendar>"
    return out.encode("utf-8")


def href_xml(h):
    return "<D:href>%s</D:href>" % escape(h)


def multiget_body(kind, hrefs, props):
    ns = CAL if kind == "calendar" else CARD
    name = "calendar-multiget" if kind == "calendar" else "addressbook-multiget"
    return ('<?xml version="1.0" encoding="utf-8"?><C:%s xmlns:D="DAV:" xmlns:C="%s"><D:prop>%s</D:prop>%s</C:%s>' % (
        name, ns, "".join(_tag_xml(p) for p in props), "".join(href_xml(h) for h in hrefs), name)).encode("utf-8")


def calquery_body(filter_xml, props):
    return ('<?xml version="1.0" encoding="utf-8"?><C:calendar-query xmlns:D="DAV:" xmlns:C="%s"><D:prop>%s</D:prop><C:filter>%s</C:filter></C:calendar-query>' % (
        CAL, "".join(_tag_xml(p) for p in props), filter_xml)).encode("utf-8")


ALL_VCALENDAR = '<C:comp-filter name="VCALENDAR"/>'


def abquery_body(filter_xml, props, limit=None):
    lim = ""
    if limit is not None:
        lim = "<C:limit><C:nresults>%s</C:nresults></C:limit>" % limit
    return ('<?xml version="1.0" encoding="utf-8"?><C:addressbook-query xmlns:D="DAV:" xmlns:C="%s"><D:prop>%s</D:prop>%s%s</C:addressbook-query>' % (
        CARD, "".join(_tag_xml(p) for p in props), filter_xml, lim)).encode("utf-8")


def sync_body(token, props, level="1"):
    tok = "<D:sync-token>%s</D:sync-token>" % escape(token) if token else "<D:sync-token/>"
    return ('<?xml version="1.0" encoding="utf-8"?><D:sync-collection xmlns:D="DAV:">%s<D:sync-level>%s</D:sync-level><D:prop>%s</D:prop></D:sync-collection>' % (
        tok, level, "".join(_tag_xml(p) for p in props))).encode("utf-8")


def _status_code(text):
    if not text:
        return None
    m = re.search(r"\b(\d{3})\b", text)
    return int(m.group(1)) if m else None


class MSResponse:
    __slots__ = ("href", "status", "props", "errors", "raw_href")

    def __init__(self):
        self.href = None
        self.raw_href = None
        self.status = None
        self.props = {}  # tag -> (status, element)
        self.errors = []

    def prop_text(self, tag):
        v = self.props.get(tag)
        if v is None or v[0] != 200:
            return None
        return v[1].text or ""

    def prop_status(self, tag):
        v = self.props.get(tag)
        return v[0] if v else None

    def prop_el(self, tag):
        v = self.props.get(tag)
        if v is None or v[0] != 200:
            return None
        return v[1]

    def __repr__(self):
        return "<MS %r %s %s>" % (self.href, self.status, {k: v[0] for k, v in self.props.items()})


class Multistatus:
    def __init__(self):
        self.responses = []
        self.sync_token = None
        self.parse_error = None


def parse_multistatus(body):
    ms = Multistatus()
    try:
        root = ET.fromstring(body)
    except ET.ParseError as e:
        ms.parse_error = str(e)
        return ms
    if root.tag != "{DAV:}multistatus":
        ms.parse_error = "root is %s" % root.tag
        return ms
    for el in root:
        if el.tag == "{DAV:}sync-token":
            ms.sync_token = el.text or ""
        elif el.tag == "{DAV:}response":
            r = MSResponse()
            for c in el:
                if c.tag == "{DAV:}href":
                    r.raw_href = c.text or ""
                    r.href = r.raw_href
                elif c.tag == "{DAV:}status":
                    r.status = _status_code(c.text)
                elif c.tag == "{DAV:}error":
                    r.errors.extend(x.tag for x in c)
                elif c.tag == "{DAV:}propstat":
                    st = None
                    props = []
                    for pc in c:
                        if pc.tag == "{DAV:}status":
                            st = _status_code(pc.text)
                        elif pc.tag == "{DAV:}prop":
                            props = list(pc)
                    for p in props:
                        r.props[p.tag] = (st, p)
            ms.responses.append(r)
    return ms


def effective_status(resp, only_with_error=False):
    """The status a client acts on.

    Observed: failed preconditions on PUT/POST are sent as a 207 whose single
    response carries the real status (412 ...) and a DAV:error element.
    """
    if resp.status != 207:
        return resp.status
    ms = parse_multistatus(resp.body)
    if ms.parse_error or len(ms.responses) != 1:
        return 207
    r = ms.responses[0]
    if only_with_error and not r.errors:
        return 207
    if r.status is not None and r.status >= 400:
        return r.status
    return 207


def error_tags(resp):
    if resp.status != 207:
        return []
    ms = parse_multistatus(resp.body)
    out = []
    for r in ms.responses:
        out.extend(r.errors)
    return out


def resolve_href(base_target, href):
    """RFC 3986 resolution of an emitted href against the request target; returns path (still percent-encoded)."""
    u = urllib.parse.urljoin("http://localhost" + base_target, href)
    p = urllib.parse.urlsplit(u)
    return p.path + (("?" + p.query) if p.query else "")


def resourcetypes(msresp):
    el = msresp.prop_el(P_RESOURCETYPE)
    if el is None:
        return None
    return frozenset(c.tag for c in el)
