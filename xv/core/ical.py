"""Independent RFC 5545 / RFC 6350 content-line reader.

Shares no code with the `icalendar` or `vobject` packages.  Used as the
reference for "property-for-property identical" (C01), for UID extraction
(C06), for "every member parses" (C14) and by the query evaluators (C11/C12).
"""

import re


class ParseError(Exception):
    pass


class Prop:
    __slots__ = ("name", "params", "value", "group")

    def __init__(self, name, params, value, group=None):
        self.name = name  # upper-cased
        self.params = params  # dict NAME -> list of values (unquoted)
        self.value = value  # raw value text (still escaped)
        self.group = group

    def __repr__(self):
        return "Prop(%s;%r:%r)" % (self.name, self.params, self.value)


class Comp:
    __slots__ = ("name", "props", "subs")

    def __init__(self, name):
        self.name = name
        self.props = []
        self.subs = []

    def get(self, name):
        for p in self.props:
            if p.name == name:
                return p
        return None

    def getall(self, name):
        return [p for p in self.props if p.name == name]

    def walk(self):
        yield self
        for s in self.subs:
            yield from s.walk()


def unfold(data):
    """bytes -> list of logical lines (str)."""
    if isinstance(data, bytes):
        text = data.decode("utf-8")
    else:
        text = data
    text = text.replace("\r\n", "\n").replace("\r", "\n")
    lines = []
    for raw in text.split("\n"):
        if raw.startswith((" ", "\t")) and lines:
            lines[-1] += raw[1:]
        else:
            lines.append(raw)
    return [ln for ln in lines if ln != ""]


_NAME_RE = re.compile(r"^[A-Za-z0-9\-\.]+")


def parse_line(line):
    """NAME *(;param) : value  -> Prop"""
    m = _NAME_RE.match(line)
    if not m:
        raise ParseError("bad content line %r" % line[:40])
    name = m.group(0)
    i = m.end()
    params = {}
    n = len(line)
    while i < n and line[i] == ";":
        i += 1
        j = i
        while j < n and line[j] not in "=;:":
            j += 1
        pname = line[i:j].upper()
        vals = []
        if j < n and line[j] == "=":
            j += 1
            while True:
                if j < n and line[j] == '"':
                    k = line.find('"', j + 1)
                    if k < 0:
                        raise ParseError("unterminated quote")
                    vals.append(line[j + 1:k])
                    j = k + 1
                else:
                    k = j
                    while k < n and line[k] not in ",;:":
                        k += 1
                    vals.append(line[j:k])
                    j = k
                if j < n and line[j] == ",":
                    j += 1
                    continue
                break
        params.setdefault(pname, []).extend(vals)
        i = j
    if i >= n or line[i] != ":":
        raise ParseError("no value separator in %r" % line[:40])
    value = line[i + 1:]
    group = None
    if "." in name:
        group, name = name.rsplit(".", 1)
    return Prop(name.upper(), params, value, group)


def parse(data):
    """bytes -> list of top-level Comp."""
    lines = unfold(data)
    stack = []
    tops = []
    for ln in lines:
        p = parse_line(ln)
        if p.name == "BEGIN":
            c = Comp(p.value.strip().upper())
            if stack:
                stack[-1].subs.append(c)
            else:
                tops.append(c)
            stack.append(c)
        elif p.name == "END":
            if not stack or stack[-1].name != p.value.strip().upper():
                raise ParseError("unbalanced END:%s" % p.value)
            stack.pop()
        else:
            if not stack:
                raise ParseError("property outside component")
            stack[-1].props.append(p)
    if stack:
        raise ParseError("missing END:%s" % stack[-1].name)
    if not tops:
        raise ParseError("no component")
    return tops


def parse_calendar(data):
    tops = parse(data)
    if len(tops) != 1 or tops[0].name != "VCALENDAR":
        raise ParseError("not a single VCALENDAR")
    return tops[0]


def parse_vcard(data):
    tops = parse(data)
    if len(tops) != 1 or tops[0].name != "VCARD":
        raise ParseError("not a single VCARD")
    return tops[0]


def unescape_text(v):
    out = []
    i = 0
    while i < len(v):
        ch = v[i]
        if ch == "\\" and i + 1 < len(v):
            nx = v[i + 1]
            if nx in "nN":
                out.append("\n")
            else:
                out.append(nx)
            i += 2
        else:
            out.append(ch)
            i += 1
    return "".join(out)


def split_unescaped(v, sep):
    parts = []
    cur = []
    i = 0
    while i < len(v):
        ch = v[i]
        if ch == "\\" and i + 1 < len(v):
            cur.append(v[i:i + 2])
            i += 2
        elif ch == sep:
            parts.append("".join(cur))
            cur = []
            i += 1
        else:
            cur.append(ch)
            i += 1
    parts.append("".join(cur))
    return parts


_RECUR_PROPS = {"RRULE", "EXRULE"}
_LIST_PROPS = {"EXDATE", "RDATE", "CATEGORIES", "RESOURCES"}


def _canon_value(name, value):
    if name in _RECUR_PROPS:
        return ("recur", frozenset(p.upper() for p in value.split(";") if p))
    if name in _LIST_PROPS:
        return ("list", tuple(value.split(",")))
    return ("v", value)


def canonical(data):
    """Order-insensitive canonical form for 'property-for-property identical'.

    Multiset of (component path, NAME, params, value).  Component paths carry
    the index among same-named siblings in order of appearance, so that
    re-ordering properties inside a component is tolerated but moving a
    property to another component is not.
    """
    cal = parse_calendar(data)
    items = []

    def walk(c, path):
        for p in c.props:
            params = frozenset((k, tuple(v)) for k, v in p.params.items())
            items.append((path, p.name, params, _canon_value(p.name, p.value)))
        counts = {}
        for s in c.subs:
            idx = counts.get(s.name, 0)
            counts[s.name] = idx + 1
            walk(s, path + ((s.name, idx),))

    walk(cal, (("VCALENDAR", 0),))
    return tuple(sorted(items, key=repr))


def same_calendar(a, b):
    try:
        return canonical(a) == canonical(b)
    except (ParseError, UnicodeDecodeError):
        return False


def first_uid(data):
    """UID of the first sub-component of VCALENDAR that has one (unescaped TEXT)."""
    try:
        cal = parse_calendar(data)
    except (ParseError, UnicodeDecodeError):
        return None
    for s in cal.subs:
        p = s.get("UID")
        if p is not None:
            return unescape_text(p.value)
    return None
