"""E3: crash-point enumerator.

1. A child process performs ONE store operation under
   `strace -f -y -xx` restricted to file-system mutations.
2. The log is parsed into mutation events on paths under the store directory.
3. A replayer applies the first k events to a copy of the pre-state for every
   k, and for every write also every byte prefix: these are exactly the states
   the directory can be in if the process dies at that instant (process death,
   not power loss: the page cache survives).
4. Conformance: applying ALL events must reproduce the child's real final
   directory byte for byte, otherwise the recording is void.
"""

import os
import re
import shutil
import subprocess
import sys

TRACE = ("openat,open,creat,write,pwrite64,writev,ftruncate,truncate,rename,renameat,renameat2,link,linkat,unlink,unlinkat,"
         "mkdir,mkdirat,rmdir,fsync,fdatasync,close,dup,dup2,dup3,lseek,symlink,symlinkat,fcntl,copy_file_range,sendfile,mmap")

_LINE = re.compile(r"^(\d+)\s+(\w+)\((.*)\)\s+=\s+(-?\d+|\?)(?:<([^>]*)>)?(.*)$")
_HEX = re.compile(r"\\x([0-9a-fA-F]{2})")


class RecorderError(Exception):
    pass


def unhex(s):
    """'\\x41\\x42' -> bytes"""
    return bytes(int(h, 16) for h in _HEX.findall(s))


def _str_arg(a):
    a = a.strip()
    m = re.match(r'^"((?:\\x[0-9a-fA-F]{2})*)"(\.\.\.)?$', a)
    if not m:
        return None, False
    return unhex(m.group(1)), bool(m.group(2))


def _fd_arg(a):
    m = re.match(r"^(\d+|AT_FDCWD)(?:<([^>]*)>)?$", a.strip())
    if not m:
        return None, None
    fd = m.group(1)
    path = unhex(m.group(2)).decode("utf-8", "surrogateescape") if m.group(2) is not None else None
    return fd, path


def _content_from_events(events, path):
    """Content of a store file as the recorded events so far define it; None when it depends on bytes the trace did not show."""
    cont = {}
    for e in events:
        k = e[0]
        if k == "open":
            _, p, creat, trunc, excl = e
            if trunc or excl:
                cont[p] = bytearray()
            else:
                cont.setdefault(p, None)
        elif k == "write":
            _, p, off, data, append = e
            b = cont.get(p)
            if b is None:
                continue
            if append:
                off = len(b)
            if len(b) < off:
                b.extend(b"\0" * (off - len(b)))
            b[off:off + len(data)] = data
        elif k == "truncate":
            b = cont.get(e[1])
            if b is not None:
                n = e[2]
                if n <= len(b):
                    del b[n:]
                else:
                    b.extend(b"\0" * (n - len(b)))
        elif k == "rename":
            cont[e[2]] = cont.pop(e[1], None)
        elif k == "link":
            cont[e[2]] = None if cont.get(e[1]) is None else bytearray(cont[e[1]])
        elif k == "unlink":
            cont.pop(e[1], None)
    return cont.get(path)


def record(argv, root, cwd, env=None, timeout=120):
    """Run argv under strace; returns (returncode, events, raw line count)."""
    log = os.path.join(cwd, "strace.log")
    cmd = ["strace", "-f", "-y", "-xx", "-s", "16777216", "-e", "trace=" + TRACE, "-o", log] + argv
    p = subprocess.run(cmd, cwd=cwd, env=env, stdout=subprocess.PIPE, stderr=subprocess.PIPE, timeout=timeout)
    with open(log, "r", errors="surrogateescape") as f:
        lines = f.read().splitlines()
    os.unlink(log)
    return p.returncode, parse(lines, root, cwd), len(lines), p.stdout, p.stderr


def parse(lines, root, cwd):
    """-> list of events (op, ...) touching paths under root, in order."""
    root = os.path.realpath(root)
    events = []
    fds = {}  # (pid, fd) -> {"path","off","append"}

    def under(p):
        return p is not None and (p == root or p.startswith(root + os.sep))

    def absp(dirpath, p):
        p = p.decode("utf-8", "surrogateescape") if isinstance(p, bytes) else p
        if not os.path.isabs(p):
            p = os.path.join(dirpath or cwd, p)
        return os.path.normpath(p)

    # threads (strace -f): a call of one thread may be reported in two pieces around calls of another thread.  The pieces
    # are joined and the call is placed where it completed; if two calls that both produce events overlap in time the
    # order of their effects is not known and the recording is refused.
    pending = {}
    items = []
    for i, ln in enumerate(lines):
        mu = re.match(r"^(\d+)\s+(\w+)\((.*) <unfinished \.\.\.>\s*$", ln)
        if mu:
            pending[mu.group(1)] = (i, "%s %s(%s" % (mu.group(1), mu.group(2), mu.group(3)))
            continue
        mr = re.match(r"^(\d+)\s+<\.\.\. (\w+) resumed>(.*)$", ln)
        if mr:
            st = pending.pop(mr.group(1), None)
            if st is None:
                continue
            items.append((st[0], i, st[1] + mr.group(3)))
            continue
        items.append((i, i, ln))
    spans = []
    for (i0, i1, ln) in items:
        nev = len(events)
        m = _LINE.match(ln)
        if not m:
            continue
        pid, call, args, ret, retpath, _rest = m.groups()
        pid = "*"  # threads of the one traced process share their descriptor table
        _span_mark = (i0, i1, nev)
        spans.append(_span_mark)
        if ret in ("?",) or ret.startswith("-"):
            continue
        ret = int(ret)
        a = args.split(", ")
        if call in ("openat", "open", "creat"):
            if call == "openat":
                dfd, dpath = _fd_arg(a[0])
                pth, _ = _str_arg(a[1])
                flags = a[2] if len(a) > 2 else ""
            elif call == "open":
                dpath = None
                pth, _ = _str_arg(a[0])
                flags = a[1] if len(a) > 1 else ""
            else:
                dpath = None
                pth, _ = _str_arg(a[0])
                flags = "O_WRONLY|O_CREAT|O_TRUNC"
            if pth is None:
                continue
            full = absp(dpath, pth)
            rp = unhex(retpath).decode("utf-8", "surrogateescape") if retpath else full
            fds[(pid, str(ret))] = {"path": rp, "off": 0, "append": "O_APPEND" in flags}
            if under(rp) and ("O_CREAT" in flags or "O_TRUNC" in flags):
                events.append(("open", rp, "O_CREAT" in flags, "O_TRUNC" in flags, "O_EXCL" in flags))
        elif call in ("write", "pwrite64"):
            fd, fpath = _fd_arg(a[0])
            st = fds.get((pid, fd))
            path = (st or {}).get("path") or fpath
            if not under(path):
                continue
            data, trunc = _str_arg(a[1])
            if data is None or trunc:
                raise RecorderError("cannot recover written data: %s" % ln[:100])
            data = data[:ret]
            if call == "pwrite64":
                off = int(a[3])
                events.append(("write", path, off, data, False))
            else:
                if st is None:
                    raise RecorderError("write on an fd whose open was not seen: %s" % ln[:100])
                events.append(("write", path, st["off"], data, st["append"]))
                st["off"] += len(data)
        elif call == "writev":
            fd, fpath = _fd_arg(a[0])
            st = fds.get((pid, fd))
            path = (st or {}).get("path") or fpath
            if not under(path):
                continue
            datas = [unhex(x) for x in re.findall(r'iov_base="((?:\\x[0-9a-fA-F]{2})*)"', args)]
            data = b"".join(datas)[:ret]
            if st is None:
                raise RecorderError("writev on unknown fd")
            events.append(("write", path, st["off"], data, st["append"]))
            st["off"] += len(data)
        elif call == "lseek":
            fd, _ = _fd_arg(a[0])
            st = fds.get((pid, fd))
            if st is not None:
                st["off"] = ret
        elif call in ("ftruncate", "truncate"):
            if call == "ftruncate":
                fd, fpath = _fd_arg(a[0])
                path = (fds.get((pid, fd)) or {}).get("path") or fpath
            else:
                p0, _ = _str_arg(a[0])
                path = absp(None, p0)
            if under(path):
                events.append(("truncate", path, int(a[1])))
        elif call in ("rename", "renameat", "renameat2"):
            if call == "rename":
                s0, _ = _str_arg(a[0])
                d0, _ = _str_arg(a[1])
                src, dst = absp(None, s0), absp(None, d0)
            else:
                _, sp = _fd_arg(a[0])
                s0, _ = _str_arg(a[1])
                _, dp = _fd_arg(a[2])
                d0, _ = _str_arg(a[3])
                src, dst = absp(sp, s0), absp(dp, d0)
            if under(src) or under(dst):
                if not (under(src) and under(dst)):
                    raise RecorderError("rename across the store boundary: %s -> %s" % (src, dst))
                events.append(("rename", src, dst))
        elif call in ("unlink", "unlinkat", "rmdir"):
            if call == "unlinkat":
                _, dp = _fd_arg(a[0])
                p0, _ = _str_arg(a[1])
                path = absp(dp, p0)
                isdir = "AT_REMOVEDIR" in (a[2] if len(a) > 2 else "")
            else:
                p0, _ = _str_arg(a[0])
                path = absp(None, p0)
                isdir = call == "rmdir"
            if under(path):
                events.append(("rmdir" if isdir else "unlink", path))
        elif call in ("mkdir", "mkdirat"):
            if call == "mkdirat":
                _, dp = _fd_arg(a[0])
                p0, _ = _str_arg(a[1])
                path = absp(dp, p0)
            else:
                p0, _ = _str_arg(a[0])
                path = absp(None, p0)
            if under(path):
                events.append(("mkdir", path))
        elif call in ("link", "linkat"):
            if call == "link":
                s0, _ = _str_arg(a[0])
                d0, _ = _str_arg(a[1])
                src, dst = absp(None, s0), absp(None, d0)
            else:
                _, sp = _fd_arg(a[0])
                s0, _ = _str_arg(a[1])
                _, dp = _fd_arg(a[2])
                d0, _ = _str_arg(a[3])
                src, dst = absp(sp, s0), absp(dp, d0)
            if under(dst):
                events.append(("link", src, dst))
        elif call in ("symlink", "symlinkat"):
            t0, _ = _str_arg(a[0])
            if call == "symlink":
                d0, _ = _str_arg(a[1])
                dst = absp(None, d0)
            else:
                _, dp = _fd_arg(a[1])
                d0, _ = _str_arg(a[2])
                dst = absp(dp, d0)
            if under(dst):
                events.append(("symlink", t0.decode("utf-8", "surrogateescape"), dst))
        elif call == "close":
            fd, _ = _fd_arg(a[0])
            fds.pop((pid, fd), None)
        elif call in ("dup", "dup2", "dup3"):
            fd, _ = _fd_arg(a[0])
            st = fds.get((pid, fd))
            if st is not None:
                fds[(pid, str(ret))] = st
        elif call == "fcntl":
            if "F_DUPFD" in args:
                fd, _ = _fd_arg(a[0])
                st = fds.get((pid, fd))
                if st is not None:
                    fds[(pid, str(ret))] = st
        elif call in ("fsync", "fdatasync"):
            fd, fpath = _fd_arg(a[0])
            path = (fds.get((pid, fd)) or {}).get("path") or fpath
            if under(path):
                events.append(("fsync", path))
        elif call == "sendfile":
            # in-kernel copy (shutil.copyfile): a write to the output descriptor whose data is the input file's content at this point of the
            # trace, reconstructed from the events recorded so far; anything that cannot be reconstructed stays a recorder error
            ofd, opath = _fd_arg(a[0])
            ifd, ipath = _fd_arg(a[1])
            ost = fds.get((pid, ofd))
            ist = fds.get((pid, ifd))
            opath = (ost or {}).get("path") or opath
            ipath = (ist or {}).get("path") or ipath
            if not under(opath):
                continue
            if ret == 0:
                continue
            mo = re.match(r"^\[(\d+)\]", a[2].strip())
            if a[2].strip() == "NULL":
                if ist is None:
                    raise RecorderError("sendfile from an fd whose open was not seen: %s" % ln[:100])
                ioff = ist["off"]
                ist["off"] += ret
            elif mo:
                ioff = int(mo.group(1))
            else:
                raise RecorderError("unmodelled data path: %s" % ln[:100])
            src = _content_from_events(events, ipath) if under(ipath) else None
            if src is None:
                try:
                    with open(ipath, "rb") as fh:  # an input outside the store is not changed by the traced operation
                        src = fh.read() if not under(ipath) else None
                except OSError:
                    src = None
            if src is None or len(src) < ioff + ret or ost is None:
                raise RecorderError("unmodelled data path (input content unknown): %s" % ln[:100])
            data = bytes(src[ioff:ioff + ret])
            events.append(("write", opath, ost["off"], data, ost["append"]))
            ost["off"] += len(data)
        elif call == "copy_file_range":
            raise RecorderError("unmodelled data path: %s" % ln[:100])
        elif call == "mmap":
            if "MAP_SHARED" in args and "PROT_WRITE" in args:
                fdm = re.search(r"(\d+)<([^>]*)>", args)
                if fdm and under(unhex(fdm.group(2)).decode("utf-8", "surrogateescape")):
                    raise RecorderError("shared writable mapping of a store file")
    # overlap check: the events of a call reported in two pieces must not be interleaved with events of other calls
    produced = []
    for k, (i0, i1, nev) in enumerate(spans):
        nxt = spans[k + 1][2] if k + 1 < len(spans) else len(events)
        if nxt > nev:
            produced.append((i0, i1))
    for (a0, a1) in produced:
        if a0 == a1:
            continue
        for (b0, b1) in produced:
            if (b0, b1) != (a0, a1) and b0 < a1 and b1 > a0:
                raise RecorderError("two file-system mutations of different threads overlap in the trace (lines %d-%d and %d-%d): their order is not known" % (a0, a1, b0, b1))
    return events


def apply_event(ev, src_root, dst_root, partial=None):
    """Apply one event to the tree at dst_root (paths are recorded relative to src_root)."""
    def tr(p):
        return os.path.join(dst_root, os.path.relpath(p, src_root))

    op = ev[0]
    if op == "open":
        _, p, creat, trunc, excl = ev
        q = tr(p)
        if creat and not os.path.lexists(q):
            with open(q, "wb"):
                pass
        elif trunc and os.path.isfile(q):
            with open(q, "r+b") as f:
                f.truncate(0)
    elif op == "write":
        _, p, off, data, append = ev
        if partial is not None:
            data = data[:partial]
        q = tr(p)
        with open(q, "r+b" if os.path.exists(q) else "w+b") as f:
            if append:
                f.seek(0, 2)
            else:
                f.seek(off)
            f.write(data)
    elif op == "truncate":
        with open(tr(ev[1]), "r+b") as f:
            f.truncate(ev[2])
    elif op == "rename":
        os.replace(tr(ev[1]), tr(ev[2]))
    elif op == "unlink":
        os.unlink(tr(ev[1]))
    elif op == "rmdir":
        os.rmdir(tr(ev[1]))
    elif op == "mkdir":
        os.mkdir(tr(ev[1]))
    elif op == "link":
        os.link(tr(ev[1]), tr(ev[2]))
    elif op == "symlink":
        os.symlink(ev[1], tr(ev[2]))
    elif op == "fsync":
        pass
    else:
        raise RecorderError("unknown event %r" % (op,))


def tree_digest(root):
    import hashlib

    out = {}
    for dp, dns, fns in os.walk(root):
        dns.sort()
        for fn in fns:
            p = os.path.join(dp, fn)
            rel = os.path.relpath(p, root)
            if os.path.islink(p):
                out[rel] = "L:" + os.readlink(p)
            else:
                with open(p, "rb") as f:
                    out[rel] = hashlib.sha1(f.read()).hexdigest()
        for dn in dns:
            out[os.path.relpath(os.path.join(dp, dn), root) + "/"] = "D"
    return out


def crash_states(events, src_root, pre_dir, scratch, stride=1, full_below=4096):
    """Yields (k, partial, dir): every event prefix and every byte prefix of every write.

    `dir` is a fresh copy the caller may audit and must delete.  stride applies
    to byte offsets >= full_below only when stride == 1 is requested for the
    thorough tier; with stride > 1 every stride-th offset plus the first and
    last three are taken.
    """
    work = os.path.join(scratch, "work")
    shutil.copytree(pre_dir, work, symlinks=True)
    n = [0]

    def snap():
        n[0] += 1
        d = os.path.join(scratch, "cs%d" % n[0])
        shutil.copytree(work, d, symlinks=True)
        return d

    yield (0, None, snap())
    for k, ev in enumerate(events):
        if ev[0] == "write" and len(ev[3]) > 1:
            L = len(ev[3])
            offs = set()
            for b in range(1, L):
                if stride == 1 and b < full_below:
                    offs.add(b)
                elif b % stride == 0 or b <= 3 or b >= L - 3:
                    offs.add(b)
            for b in sorted(offs):
                d = snap()
                apply_event(ev, src_root, d, partial=b)
                yield (k, b, d)
        apply_event(ev, src_root, work)
        if ev[0] != "fsync":
            yield (k + 1, None, snap())
    shutil.rmtree(work, ignore_errors=True)
