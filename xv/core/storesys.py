"""Store-API driver: the four storage back ends behind the same op alphabet.

tree-git, bare-git on disk, bare-git in memory and vdir are driven through
import_one / delete_one / iter_with_etag / get_file exactly as the web layer
drives them (same extra file handlers), in lock-step, so that the same history
can be compared across back ends (differential oracle) and against a dict model.
"""

import hashlib
import os
import shutil

from . import bodies as B
from . import env, http, ical

BACKENDS = ("tree", "bare", "mem", "vdir")


def classify_exc(e):
    n = type(e).__name__
    if n in ("InvalidETag", "DuplicateUidError", "NoSuchItem", "InvalidFileContents", "LockedError", "OutOfSpaceError", "InvalidCTag"):
        return n
    return "EXC:" + n


def open_store(kind, path, create=False, **kw):
    from xandikos.icalendar import ICalendarFile
    from xandikos.vcard import VCardFile

    if kind == "tree":
        from xandikos.store.git import GitStore, TreeGitStore

        st = TreeGitStore.create(path) if create else GitStore.open_from_path(path, **kw)
    elif kind == "bare":
        from xandikos.store.git import BareGitStore, GitStore

        st = BareGitStore.create(path) if create else GitStore.open_from_path(path, **kw)
    elif kind == "mem":
        from xandikos.store.git import BareGitStore

        st = BareGitStore.create_memory()
    elif kind == "vdir":
        from xandikos.store.vdir import VdirStore

        st = VdirStore.create(path) if create else VdirStore.open_from_path(path)
    else:
        raise ValueError(kind)
    st.load_extra_file_handler(ICalendarFile)
    st.load_extra_file_handler(VCardFile)
    if kind in ("tree", "bare") and hasattr(st, "repo"):
        try:
            st.repo.hooks = {}
        except Exception:
            pass
    return st


def etag_scheme(kind, data):
    if kind == "vdir":
        return hashlib.md5(data).hexdigest()
    return hashlib.sha1(b"blob %d\x00" % len(data) + data).hexdigest()


_SCHEME_HOLDS = {}


def scheme_holds(kind):
    """Does this tree still derive ETags the way the harness assumes (git blob id / md5 of the stored bytes)?

    Asked once per back end on a scratch store.  The properties do not prescribe a scheme; where the harness uses the
    assumed one as a shortcut oracle (C04, C05: "the listed ETag belongs to the served bytes") it does so only while the
    implementation itself follows it, and falls back to the implementation-independent oracles otherwise.
    """
    if kind not in _SCHEME_HOLDS:
        import shutil

        d = env.fresh_dir("scheme")
        try:
            st = open_store(kind, os.path.join(d, "c"), create=True)
            st.import_one("probe.ics", "text/calendar", [B.ALL_BODIES["X"]])
            ok = True
            for (n, ct, et) in st.iter_with_etag():
                data = b"".join(st.get_file(n, ct, et).content)
                ok = ok and etag_scheme(kind, data) == et
            _SCHEME_HOLDS[kind] = ok
        except Exception:
            _SCHEME_HOLDS[kind] = False
        finally:
            shutil.rmtree(d, ignore_errors=True)
    return _SCHEME_HOLDS[kind]


class OneStore:
    def __init__(self, kind):
        self.kind = kind
        self.dir = env.fresh_dir("st")
        self.path = os.path.join(self.dir, "coll")
        http.install_store_registry()
        self.store = open_store(kind, self.path, create=True)

    def restart(self):
        if self.kind == "mem":
            return False
        self.store = None
        self.store = open_store(self.kind, self.path)
        return True

    def close(self):
        self.store = None
        shutil.rmtree(self.dir, ignore_errors=True)

    def put(self, name, data, replace_etag=None, content_type="by-ext"):
        ct = B.content_type_for(name).split(";")[0] if content_type == "by-ext" else content_type
        try:
            (n, etag) = self.store.import_one(name, ct, [data], replace_etag=replace_etag)
            return ("ok", etag, n)
        except Exception as e:
            return (classify_exc(e), None, None)

    def delete(self, name, etag=None):
        try:
            self.store.delete_one(name, etag=etag)
            return ("ok", None, None)
        except Exception as e:
            return (classify_exc(e), None, None)

    def listing(self):
        try:
            return {n: (ct, et) for (n, ct, et) in self.store.iter_with_etag()}
        except Exception as e:
            return {"!error": (classify_exc(e), str(e)[:100])}

    def read(self, name, etag=None):
        try:
            f = self.store.get_file(name, None, etag)
            return b"".join(f.content)
        except KeyError:
            return None
        except Exception as e:
            return ("!error", classify_exc(e))

    def ctag(self):
        try:
            return self.store.get_ctag()
        except NotImplementedError:
            return None

    def fingerprint(self):
        if self.kind == "mem":
            return http._dump_obj(self.store) + "|" + http._dump_obj(self.store.index) + "|" + http._dump_obj(self.store.index_manager)
        return http.stores_fingerprint(self.dir)


class StoreSys:
    """Lock-step system over several back ends with one dict model per back end."""

    def __init__(self, kinds=BACKENDS, names=("a.ics", "b.ics"), bodies=("X", "X2", "Z", "BAD"), oracles=(), features=(), ops=None, label=None):
        self.kinds = tuple(kinds)
        self.names = list(names)
        self.bodies = list(bodies)
        self.oracles = set(oracles)
        self.features = set(features)
        self.ops_fn = ops
        self.label = label or "store:" + "+".join(self.kinds)
        self.stores = {k: OneStore(k) for k in self.kinds}
        self.models = {k: {} for k in self.kinds}  # name -> uploaded bytes
        self.uidhist = {k: {} for k in self.kinds}  # uid -> how the last holder lost it
        self.restarted = {k: False for k in self.kinds}
        self.vios = {}
        self.obs = []
        self.nreq = 0
        self.hist = []
        self.last = None

    def close(self):
        for s in self.stores.values():
            s.close()

    def take_violations(self):
        v, self.vios = self.vios, {}
        return v

    def take_observations(self):
        o, self.obs = self.obs, []
        return o

    def take_request_count(self):
        n, self.nreq = self.nreq, 0
        return n

    recording = True

    def violation(self, prop, kind, what, summary, detail=None):
        if not self.recording:
            return
        sig = "%s|store:%s|%s" % (prop, kind, what)
        w = {"backend": kind, "history": [list(o) for o in self.hist], "detail": detail}
        e = self.vios.get(sig)
        if e is None:
            self.vios[sig] = {"summary": summary, "witness": w, "count": 1}
        else:
            e["count"] += 1

    def body_class(self, data):
        for bid in self.bodies:
            if B.ALL_BODIES.get(bid) == data:
                return bid
        for bid, b in B.ALL_BODIES.items():
            if b == data:
                return bid
        return hashlib.sha1(data).hexdigest()[:10]

    def key(self):
        parts = []
        for k in self.kinds:
            m = tuple(sorted((n, self.body_class(b)) for n, b in self.models[k].items()))
            fp = hashlib.sha1(self.stores[k].fingerprint().encode("utf-8", "replace")).hexdigest()
            parts.append((k, m, fp))
        return tuple(parts)

    def enabled_ops(self):
        if self.ops_fn is not None:
            return self.ops_fn(self)
        ops = []
        for n in self.names:
            for b in self.bodies:
                ops.append(("put", n, b, None))
            ops.append(("delete", n, None))
        if "etagargs" in self.features:
            n = self.names[0]
            for b in self.bodies[:2]:
                ops.append(("put", n, b, "current"))
                ops.append(("put", n, b, "etagof:" + self.bodies[1]))
            ops.append(("delete", n, "current"))
            ops.append(("delete", n, "etagof:" + self.bodies[1]))
            ops.append(("put", self.names[1], self.bodies[0], "etagof:" + self.bodies[0]))
        if "restart" in self.features:
            ops.append(("restart",))
        return ops

    def replay(self, hist):
        for op in hist:
            self.apply(tuple(op), check=False)
        if self.last is None:
            self.last = self.audit()

    def audit(self):
        out = {}
        for k in self.kinds:
            st = self.stores[k]
            lst = st.listing()
            self.nreq += 1
            a = {"listing": lst, "content": {}, "ctag": st.ctag()}
            names = set(self.names) | set(self.models[k]) | {n for n in lst if not n.startswith("!")}
            for n in sorted(names):
                a["content"][n] = st.read(n)
                self.nreq += 1
            out[k] = a
        return out

    def resolve_etag(self, kind, name, spec, prev):
        if spec is None:
            return None
        if spec == "current":
            lst = prev[kind]["listing"]
            if name in lst:
                return lst[name][1]
            return etag_scheme(kind, b"absent")
        if spec.startswith("etagof:"):
            # the etag that body has once stored: look it up among stored forms, else hash of the upload
            return stored_etag(spec[7:], kind == "vdir")
        return spec

    def apply(self, op, check=True):
        op = tuple(op)
        if self.last is None:
            self.last = self.audit()
        prev = self.last
        kind_op = op[0]
        results = {}
        for k in self.kinds:
            st = self.stores[k]
            self.nreq += 1
            if kind_op == "put":
                _, name, bid, espec = op
                et = self.resolve_etag(k, name, espec, prev)
                r = st.put(name, B.ALL_BODIES[bid], replace_etag=et)
                results[k] = r
                if r[0] == "ok":
                    self.models[k][name] = B.ALL_BODIES[bid]
            elif kind_op == "delete":
                _, name, espec = op
                et = self.resolve_etag(k, name, espec, prev)
                r = st.delete(name, etag=et)
                results[k] = r
                if r[0] == "ok":
                    self.models[k].pop(name, None)
            elif kind_op == "restart":
                did = st.restart()
                results[k] = ("restart" if did else "norestart", None, None)
                if did:
                    self.restarted[k] = True
            else:
                raise ValueError(op)
        self.hist.append(op)
        audit = self.audit()
        info = {"outcome": "%s:%s" % (kind_op, "/".join(results[k][0] for k in self.kinds)), "success": any(r[0] == "ok" for r in results.values()), "results": {k: results[k][0] for k in self.kinds}}
        self.recording = check
        self.check(op, results, prev, audit)
        self.recording = True
        self.last = audit
        return info

    # -- oracles ----------------------------------------------------------

    def content_matches(self, name, served, expected):
        if not isinstance(served, bytes):
            return False
        if name.lower().endswith(".ics"):
            return ical.same_calendar(served, expected)
        return served == expected

    def check(self, op, results, prev, audit):
        if "C01" in self.oracles:
            self.check_c01(op, results, prev, audit)
        if "C03" in self.oracles:
            self.check_c03(op, results, prev, audit)
        if "C06" in self.oracles:
            self.check_c06(op, results, prev, audit)

    def check_c01(self, op, results, prev, audit):
        kind_op = op[0]
        for k in self.kinds:
            a = audit[k]
            m = self.models[k]
            lst = a["listing"]
            if "!error" in lst:
                self.violation("C01", k, "listing-raises:%s" % kind_op, "iter_with_etag raised %s" % (lst["!error"],), {"op": op})
                continue
            if set(lst) != set(m):
                self.violation("C01", k, "listing-mismatch:%s" % kind_op, "iter_with_etag lists %s, live members are %s" % (sorted(lst), sorted(m)), {"op": op, "result": results[k][0]})
            for n, c in a["content"].items():
                if n in m:
                    if not self.content_matches(n, c, m[n]):
                        self.violation("C01", k, "content-mismatch:%s" % kind_op, "get_file does not return the content of the last successful write", {"op": op, "name": n, "served": c if isinstance(c, bytes) else repr(c), "expected": m[n]})
                    elif n in lst and isinstance(c, bytes) and lst[n][1] != etag_scheme(k, c):
                        self.violation("C02", k, "etag-not-content-hash", "listed etag is not the back end's hash of the served bytes", {"op": op, "name": n})
                elif c is not None:
                    self.violation("C01", k, "absent-readable:%s" % kind_op, "a name that was never created / was deleted is readable", {"op": op, "name": n})
            if results[k][0] != "ok":
                pa = prev[k]
                if (pa["listing"], pa["content"], pa["ctag"]) != (a["listing"], a["content"], a["ctag"]):
                    self.violation("C01", k, "refused-op-changed-state:%s:%s" % (kind_op, results[k][0]), "an operation that raised %s changed the store" % results[k][0], {"op": op})
            elif kind_op in ("put", "delete"):
                pa = prev[k]
                for n in set(pa["content"]) | set(a["content"]):
                    if n != op[1] and pa["content"].get(n) != a["content"].get(n):
                        self.violation("C01", k, "other-member-changed:%s" % kind_op, "a write to %s altered %s" % (op[1], n), {"op": op})
        # cross-backend differential: same accept/refuse pattern and same contents
        if "differential" in self.features and len(self.kinds) > 1 and kind_op != "restart":
            ref = self.kinds[0]
            for k in self.kinds[1:]:
                if results[k][0] != results[ref][0]:
                    self.violation("C01", k, "differs-from-%s:%s:%s-vs-%s" % (ref, kind_op, results[k][0], results[ref][0]), "same history, different outcome on two back ends", {"op": op})
                elif {n: self.body_class_served(c) for n, c in audit[k]["content"].items()} != {n: self.body_class_served(c) for n, c in audit[ref]["content"].items()}:
                    self.violation("C01", k, "contents-differ-from-%s:%s" % (ref, kind_op), "same history, different contents on two back ends", {"op": op})

    def body_class_served(self, c):
        if not isinstance(c, bytes):
            return repr(c)
        try:
            return hashlib.sha1(repr(ical.canonical(c)).encode()).hexdigest()[:10]
        except Exception:
            return hashlib.sha1(c).hexdigest()[:10]

    def check_c03(self, op, results, prev, audit):
        kind_op = op[0]
        if kind_op not in ("put", "delete"):
            return
        name = op[1]
        espec = op[3] if kind_op == "put" else op[2]
        if espec is None:
            return
        for k in self.kinds:
            lst = prev[k]["listing"]
            cur = lst[name][1] if name in lst else None
            given = self.resolve_etag(k, name, espec, prev)
            res = results[k][0]
            cond_true = cur is not None and cur == given
            pa, a = prev[k], audit[k]
            if not cond_true:
                expected = "NoSuchItem" if (kind_op == "delete" and cur is None) else "InvalidETag"
                # an invalid body may be refused before the etag is looked at; still a refusal
                if res == "ok":
                    self.violation("C03", k, "etag-arg-ignored:%s" % kind_op, "%s with etag %s executed although the current etag is %s" % (kind_op, given, cur), {"op": op})
                elif res not in (expected, "InvalidFileContents", "DuplicateUidError"):
                    self.violation("C03", k, "etag-arg-wrong-error:%s:%s" % (kind_op, res), "expected %s, got %s" % (expected, res), {"op": op})
                if (pa["listing"], pa["content"]) != (a["listing"], a["content"]):
                    self.violation("C03", k, "failed-precondition-changed-state:%s" % kind_op, "an operation whose etag precondition failed changed the store", {"op": op})
            else:
                # must behave like the same op without the etag: compare with twin
                if self.recording:
                    self.obs.append(("twin", k, [list(o) for o in self.hist[:-1]], list(op), res, self.snapshot(a)))

    def snapshot(self, a):
        return (tuple(sorted((n, v[1]) for n, v in a["listing"].items() if not n.startswith("!"))),)

    def check_c06(self, op, results, prev, audit):
        kind_op = op[0]
        for k in self.kinds:
            a = audit[k]
            # invariant: no two members share a UID
            uids = {}
            for n, c in a["content"].items():
                if isinstance(c, bytes) and n.lower().endswith(".ics"):
                    u = ical.first_uid(c)
                    if u is not None:
                        uids.setdefault(u, []).append(n)
            for u, ns in uids.items():
                if len(ns) > 1:
                    self.violation("C06", k, "duplicate-uid-stored:%s" % kind_op, "two members share UID %r: %s" % (u, ns), {"op": op})
            if kind_op != "put":
                if kind_op == "delete" and results[k][0] == "ok":
                    c = prev[k]["content"].get(op[1])
                    if isinstance(c, bytes):
                        u = ical.first_uid(c)
                        if u is not None:
                            self.uidhist[k][u] = "deleted"
                continue
            _, name, bid, espec = op
            body = B.ALL_BODIES[bid]
            uid = ical.first_uid(body) if name.lower().endswith(".ics") else None
            holders = []
            for n, c in prev[k]["content"].items():
                if n != name and isinstance(c, bytes) and n.lower().endswith(".ics") and ical.first_uid(c) == uid and uid is not None:
                    holders.append(n)
            res = results[k][0]
            if res == "DuplicateUidError" and not holders:
                how = self.uidhist[k].get(uid, "never-held")
                self.violation("C06", k, "false-conflict:%s%s" % (how, ":after-restart" if self.restarted[k] else ""), "a write was refused for a UID conflict although no other resource holds UID %r (previous holder: %s)" % (uid, how), {"op": op})
            if res == "ok" and holders:
                self.violation("C06", k, "missed-conflict", "a write gave %s the UID %r already held by %s" % (name, uid, holders), {"op": op})
            if res == "DuplicateUidError":
                pa = prev[k]
                if (pa["listing"], pa["content"]) != (a["listing"], a["content"]):
                    self.violation("C06", k, "refused-conflict-changed-state", "a write refused for a UID conflict changed the store", {"op": op})
            if res == "ok":
                old = prev[k]["content"].get(name)
                if isinstance(old, bytes) and name.lower().endswith(".ics"):
                    ou = ical.first_uid(old)
                    if ou is not None and ou != uid:
                        self.uidhist[k][ou] = "changed-uid"
                if uid is not None:
                    self.uidhist[k].pop(uid, None)


# stored (normalised) forms, filled lazily by checks that need stale etags of git stores
STORED_FORMS = {}


def compute_stored_forms(bids):
    """Ask the implementation once what it stores for each body (git and vdir store the same normalised bytes)."""
    for bid in bids:
        for vd in (False, True):
            if (vd, bid) in STORED_FORMS:
                continue
            s = OneStore("vdir" if vd else "mem")
            try:
                r = s.put("probe.vcf" if bid in B.CARD_BODIES else "probe.ics", B.ALL_BODIES[bid])
                if r[0] == "ok":
                    c = s.read(r[2])
                    if isinstance(c, bytes):
                        STORED_FORMS[(vd, bid)] = c
            finally:
                s.close()


def stored_etag(bid, vdir=False):
    """ETag a body has once stored (the implementation normalises iCalendar on upload)."""
    if (vdir, bid) not in STORED_FORMS:
        compute_stored_forms([bid])
    data = STORED_FORMS.get((vdir, bid), B.ALL_BODIES[bid])
    return etag_scheme("vdir" if vdir else "tree", data)
