"""bin/xv selftest - the harness checks itself (run by MANIFEST.setup_cmd).

1. binding: xandikos is imported from the tree under test and a PUT/GET round
   trip works on all three front ends;
2. determinism: the same history replayed in two fresh processes gives the
   same state key and the same audit;
3. E4: the default schedule of one scenario run twice gives identical traces;
4. shim completeness: the file-system mutations the Python-level shims see for
   one store operation are exactly the mutations strace records for the same
   operation in a child process (same kinds, same paths, same order);
5. E3: replaying the recorded log reproduces the child's final directory.
Exit 0 if everything holds, 2 otherwise (never 1: a selftest failure is a
harness fault, not a property violation).
"""

import json
import multiprocessing as mp
import os
import shutil
import sys

from ..core import bodies as B
from ..core import crash, davsys, env, http, sched, storesys


def _replay_key(hist):
    cfg = davsys.Config(features={"views", "head"}, threshold=0)
    s = davsys.DavSys(cfg)
    try:
        s.replay(hist)
        a = s.last_audit
        obs = repr({c: davsys.DavSys.observable(a[c]) for c in a})
        for actual, ph in s.gen.items():
            obs = obs.replace(actual, ph)  # POST names are random uuids
        return repr(s.key()), obs
    finally:
        s.close()


def _front_probe(front):
    cfg = davsys.Config(front=front, prefix="/dav/")
    s = davsys.DavSys(cfg)
    try:
        s.replay([])
        i = s.apply(("put", "cal", "a.ics", "X"), check=False)
        g = s.req("GET", s.url("cal", "a.ics"))
        return (front, i.get("status"), g.status)
    finally:
        s.close()


def _shim_vs_strace(kind):
    d = env.fresh_dir("st")
    try:
        path = os.path.join(d, "coll")
        st = storesys.open_store(kind, path, create=True)
        st.import_one("a.ics", "text/calendar", [B.ALL_BODIES["X"]])
        st = None
        pre = os.path.join(d, "pre")
        shutil.copytree(path, pre, symlinks=True)
        # in-process under the shims
        st = storesys.open_store(kind, path)
        with sched.FaultInjector(path, k=None) as inj:
            st.import_one("a.ics", "text/calendar", [B.ALL_BODIES["X2"]])
        st = None
        shim = []
        for lab in inj.labels:
            op, _, rel = lab.partition(":")
            if op.startswith("open"):
                shim.append(("open", rel))
            elif op in ("rename", "replace"):
                shim.append(("rename", rel))
            elif op in ("mkdir", "link"):
                # the shim sees attempts, strace (as parsed) only successful calls: drop mkdir of what already existed
                if op == "mkdir" and os.path.isdir(os.path.join(pre, rel)):
                    continue
                shim.append((op, rel))
        shutil.rmtree(path)
        shutil.copytree(pre, path, symlinks=True)
        child = os.path.join(os.path.dirname(crash.__file__), "crash_child.py")
        rc, events, nlines, out, err = crash.record([sys.executable, "-W", "ignore", child, kind, path, json.dumps(["put", "a.ics", "X2"])], path, d)
        if rc != 0:
            return kind, False, "child failed: %s" % err[-300:]
        traced = []
        for ev in events:
            if ev[0] == "open":
                traced.append(("open", os.path.relpath(ev[1], path)))
            elif ev[0] == "rename":
                traced.append(("rename", os.path.relpath(ev[1], path)))
            elif ev[0] in ("mkdir", "link"):
                traced.append((ev[0], os.path.relpath(ev[-1], path)))
        # conformance of the replayer as well
        sc = os.path.join(d, "sc")
        os.mkdir(sc)
        last = None
        for (k, part, cd) in crash.crash_states(events, path, pre, sc, stride=64):
            if last:
                shutil.rmtree(last, ignore_errors=True)
            last = cd
        conf = crash.tree_digest(last) == crash.tree_digest(path)
        # file names of loose objects / temp files differ in nothing (content-addressed); compare sequences
        import re

        def mask(seq):
            out = []
            for op, rel in seq:
                rel = re.sub(r"[0-9a-f]{38,40}", "<id>", rel)
                rel = re.sub(r"objects/[0-9a-f]{2}(/|$)", r"objects/<xx>\1", rel)
                rel = re.sub(r"tmp[a-z0-9_]{6,10}", "<tmp>", rel)
                out.append((op, rel))
            return out

        shim, traced = mask(shim), mask(traced)
        ok = shim == traced
        detail = "" if ok else "shim %r\nstrace %r" % (shim, traced)
        return kind, ok and conf, ("replayer conformance failed; " if not conf else "") + detail
    finally:
        shutil.rmtree(d, ignore_errors=True)


def _e4_twice(_):
    from ..checks import c05

    tdir, etags = c05.make_template("tree")
    traces = []
    try:
        for i in range(2):
            d = env.fresh_dir("e4")
            os.rmdir(d)
            shutil.copytree(tdir, d, symlinks=True)
            path = os.path.join(d, "coll")
            stores = [storesys.open_store("tree", path) for _ in range(2)]
            ops = ("cas-a-X2", "put-b-Z2")
            bodies = [(lambda st=st, o=o: c05.do_op(st, c05.OPS[o], etags)) for st, o in zip(stores, ops)]
            x = sched.Scheduler(path, prefix=[1, 0, 0, 0, 0, 1]).run(bodies)
            traces.append((list(x.trace), [r for r, e in x.results]))
            shutil.rmtree(d, ignore_errors=True)
    finally:
        shutil.rmtree(tdir, ignore_errors=True)
    return traces[0] == traces[1], len(traces[0][0])


def _e5_probe(_):
    """E5 attaches: a PUT onto an existing member shows a body-read point and at least one thread hand-off."""
    from ..core import asyncpoints

    d = env.fresh_dir("e5")
    try:
        root = os.path.join(d, "root")
        shutil.copytree(davsys.template_root("tree"), root, symlinks=True)
        w = http.WsgiWorld(root)
        try:
            url = davsys.COLL_PATHS["cal"] + "a.ics"
            asyncpoints.run(w.app, ("PUT", url, {"Content-Type": B.CT_ICS}, B.ALL_BODIES["X"]))
            resp, _o, n, labels = asyncpoints.run(w.app, ("PUT", url, {"Content-Type": B.CT_ICS}, B.ALL_BODIES["X2"]))
            return resp[0], n, labels
        finally:
            w.close()
    finally:
        shutil.rmtree(d, ignore_errors=True)


def main(args):
    env.bind_repo()
    failures = []
    ctx = mp.get_context("fork")
    with ctx.Pool(6) as pool:
        # (no POST here: its uuid name is part of the tree and therefore of the collection tag)
        hist = [("put", "cal", "a.ics", "X"), ("put", "cal", "b.ics", "Z"), ("put", "cal", "a.ics", "X2"), ("delete", "cal", "a.ics"), ("restart",), ("proppatch", "cal", "displayname", "d")]
        r1 = pool.apply_async(_replay_key, (hist,))
        r2 = pool.apply_async(_replay_key, (hist,))
        fronts = [pool.apply_async(_front_probe, (f,)) for f in ("wsgi", "aio", "proc")]
        shims = [pool.apply_async(_shim_vs_strace, (k,)) for k in ("tree", "bare")]
        e4 = pool.apply_async(_e4_twice, (0,))
        e5 = pool.apply_async(_e5_probe, (0,))
        a, b = r1.get(300), r2.get(300)
        if a != b:
            failures.append("determinism: the same history gave different keys/audits in two processes")
        print("selftest determinism: %s" % ("ok" if a == b else "FAILED"))
        for f in fronts:
            front, st, gs = f.get(300)
            ok = st in (200, 201, 204) and gs == 200
            print("selftest front %s: PUT %s GET %s %s" % (front, st, gs, "ok" if ok else "FAILED"))
            if not ok:
                failures.append("front %s: PUT %s / GET %s" % (front, st, gs))
        for sres in shims:
            kind, ok, detail = sres.get(300)
            print("selftest shim-vs-strace + replayer conformance (%s): %s" % (kind, "ok" if ok else "FAILED " + detail[:600]))
            if not ok:
                failures.append("shim/strace mismatch on %s" % kind)
        same, n = e4.get(300)
        print("selftest E4 replay of one schedule twice (%d steps): %s" % (n, "ok" if same else "FAILED"))
        if not same:
            failures.append("E4 replay diverged")
        try:
            code, n, labels = e5.get(300)
            ok = code in (200, 201, 204) and "read-body" in labels and n >= 2
            print("selftest E5 attachment (PUT: %s, %d suspension points %s): %s" % (code, n, labels, "ok" if ok else "FAILED"))
            if not ok:
                failures.append("E5 does not see the suspension points of a PUT (body read + thread hand-off)")
        except Exception as e:
            print("selftest E5 attachment: FAILED %s: %s" % (type(e).__name__, e))
            failures.append("E5 cannot attach: %s" % e)
    for f in failures:
        print("HARNESS-ERROR: selftest: %s" % f)
    return 2 if failures else 0
