"""bin/xv <property-id|command> [--tier quick|thorough] [--replay file]"""

import argparse
import importlib
import sys

from .core import env


def replay(prop, mod, path):
    """Replay a violation file: precise re-execution where the witness carries a history, else re-run the quick tier."""
    import json
    import os
    import subprocess
    import tempfile

    rc = None
    if hasattr(mod, "configs"):
        from .checks import e1common

        rc = e1common.replay_witness(prop, path, mod.configs)
    if rc is not None:
        return rc
    sig = json.load(open(path)).get("signature", "")
    out = tempfile.mkdtemp(prefix="xvreplay-", dir=os.environ.get("XV_SCRATCH") or "/dev/shm")
    e = dict(os.environ, XV_OUT=out)
    p = subprocess.run([sys.executable, "-W", "ignore", "-m", "xv", prop, "--tier", "quick"], env=e, stdout=subprocess.PIPE, stderr=subprocess.STDOUT, text=True)
    hit = sig in p.stdout
    print(json.dumps(json.load(open(path)).get("witness"), indent=1, ensure_ascii=False)[:3000])
    print("REPRODUCED" if hit else "NOT REPRODUCED by the quick tier (try --tier thorough)")
    return 1 if hit else 0


def main(argv):
    ap = argparse.ArgumentParser(prog="xv")
    ap.add_argument("what")
    ap.add_argument("--tier", default=None)
    ap.add_argument("--replay", default=None)
    ap.add_argument("--workers", type=int, default=None)
    ap.add_argument("rest", nargs="*")
    args = ap.parse_args(argv)
    env.bind_repo()
    what = args.what
    tier = env.tier(args.tier)
    if what.upper().startswith("C") and what[1:].isdigit():
        mod = importlib.import_module("xv.checks.%s" % what.lower())
        if args.replay:
            return replay(what.upper(), mod, args.replay)
        try:
            return mod.run(tier, workers=args.workers)
        except Exception as e:  # a crash of the machinery is a harness fault (exit 2), never a verdict
            import traceback

            traceback.print_exc()
            print("HARNESS-ERROR: %s: the check itself failed: %s: %s" % (what.upper(), type(e).__name__, str(e)[:300]))
            return 2
    mod = importlib.import_module("xv.cmds.%s" % what)
    return mod.main(args)


if __name__ == "__main__":
    sys.exit(main(sys.argv[1:]))
