"""bin/xv <property-id|command> [--tier quick|thorough] [--replay file]"""

import argparse
import importlib
import sys

from .core import env


def main(argv):
    ap = argparse.ArgumentParser(prog="xv")
    ap.add_argument("what")
    ap.add_argument("--tier", default=None)
    ap.add_argument("--replay", default=None)
    ap.add_argument("--workers", type=int, default=None)
    ap.add_argument("rest", nargs="*")
    args = ap.parse_args(argv)
    env.bind_repo()
    what = args.what
    tier = env.tier(args.tier)
    if what.upper().startswith("C") and what[1:].isdigit():
        mod = importlib.import_module("xv.checks.%s" % what.lower())
        if args.replay:
            return mod.replay(args.replay)
        return mod.run(tier, workers=args.workers)
    mod = importlib.import_module("xv.cmds.%s" % what)
    return mod.main(args)


if __name__ == "__main__":
    sys.exit(main(sys.argv[1:]))
