"""C09 - the git repository is a faithful, append-only history that git tools can use."""

from ..core.davsys import Config
from . import e1common

ASSUME = [
    "the harness inspects every collection directory with the git CLI after every transition: rev-list, ls-tree, status --porcelain, fsck --strict",
    "expected commit delta: +1 iff the versioned observable state (member listing with etags, properties stored in .xandikos) changed, else 0",
    "single-property PROPPATCH only, so one change = one commit is unambiguous",
]


def configs(tier):
    feats = {"git", "c2", "restart", "mkcol"}
    if tier == "thorough":
        feats = feats | {"fsck", "post"}
    bodies = {"cal": ["X", "X2", "XR", "BAD"], "ab": ["K"], "c2": ["X"]}
    # None = DAV:remove; removing a property that was never set changes nothing and must add no commit
    # "" = DAV:set with an empty element (how clients clear a property)
    props = {"cal": {"displayname": ["d1", None, ""], "calorder": [None, ""], "calcolor": [""]}, "c2": {"displayname": [None, ""], "comment": [""]}}
    out = [
        Config(front="wsgi", backend="tree", prefix="/", features=feats | {"fsck"}, bodies=bodies, props=props, oracles={"C09"}),
        # (member names starting with a dot in this configuration)
        Config(front="wsgi", backend="bare", prefix="/", features=feats, names={"cal": ["a.ics", ".b.ics"], "ab": ["a.vcf"], "c2": [".a.ics"]}, bodies=bodies, props=props, oracles={"C09"}),
    ]
    # a member that was stored unvalidated (uploaded as octet-stream under a .ics name) and is then overwritten with a calendar
    out.append(Config(front="wsgi", backend="tree", prefix="/", features={"git", "fsck"}, names={"cal": ["a.ics"], "ab": [], "c2": []}, bodies={"cal": ["X", "X2", "TXT"], "ab": [], "c2": []},
                      ct_for={"TXT": "application/octet-stream"}, props={}, oracles={"C09"}, label="tree/wsgi+raw-uploads"))
    # member names that point into the repository's control directory (the aiohttp front end has no git handler in front of them)
    out.append(Config(front="aio", backend="tree", prefix="/", features={"git", "fsck"}, names={"cal": ["a.ics", ".git/a.ics", ".git/z.ics"], "ab": [], "c2": []}, bodies={"cal": ["X", "X2"], "ab": [], "c2": []},
                      props={}, oracles={"C09"}, label="tree/aio+control-dir-names"))
    # a second worker process on the same bare repository (every store handle must build its commits on the branch head as it is now)
    out.append(Config(front="wsgi", backend="bare", prefix="/", features={"git", "two-workers"}, names={"cal": ["a.ics", "b.ics"], "ab": [], "c2": []}, bodies={"cal": ["X", "Z"], "ab": [], "c2": []},
                      props={}, oracles={"C09"}, label="bare/wsgi+two-workers"))
    if tier == "thorough":
        out += [
            Config(front="aio", backend="tree", prefix="/dav/", features=feats, bodies=bodies, props=props, oracles={"C09"}),
            Config(front="wsgi", backend="tree", prefix="/", metadata="config", features=feats, bodies=bodies, props=props, oracles={"C09"}),
        ]
    return out


def run(tier, workers=None):
    def seeds(cfg):
        if "two-workers" in cfg.features:
            return [[("put", "cal", "a.ics", "X")]]
        return [[("mkcalendar", "c2"), ("put", "c2", "a.ics", "X")], [("put", "cal", "a.ics", "X"), ("put", "cal", "a.ics", "X2"), ("delete", "cal", "a.ics")]]

    def depth_of(cfg):
        return (2, None) if tier == "quick" else (4, 2500)

    def race_phase(rep):
        """Overlapping requests: after every schedule (E4, tree store, 1 preemption) working tree, index and HEAD must agree."""
        import multiprocessing as mp

        from . import c05

        scen = [("cas-a-X2", "cas-a-X3"), ("cas-a-X2", "del-a-cas"), ("new-c-uid9", "new-d-uid9"), ("put-a-X2", "put-b-Z2"), ("new-c-dup-of-a", "del-a")]
        jobs = [("tree", "processes", ops, 1, 300) for ops in scen]
        with mp.get_context("fork").Pool(min(len(jobs), workers or 16), maxtasksperchild=2) as pool:
            results = pool.map(c05._scenario, jobs, chunksize=1)
        n = 0
        for vios, stats, label, err in results:
            n += stats["executions"]
            if err:
                rep.harness_error("race phase %s: %s" % (label, err))
            for sig, e in vios.items():
                if "|final-state:git-status-dirty|" in sig or "|final-state:unreadable" in sig or "|final-state:listing" in sig:
                    rep.violation(sig.replace("C05|", "C09|race|", 1), e["summary"], e["witness"])
        return {"race_phase": {"scenarios": len(jobs), "schedules": n, "preemption_bound": 1}}

    return e1common.run_configs("C09", tier, configs(tier), depth_of, workers=workers, seeds=seeds, extra=race_phase, assumptions=ASSUME + [
        "race phase: five two-writer scenarios on the tree store, every schedule with at most one preemption (E4); afterwards git status must be clean",
    ])
