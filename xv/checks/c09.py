"""C09 - the git repository is a faithful, append-only history that git tools can use."""

from ..core.davsys import Config
from . import e1common

ASSUME = [
    "the harness inspects every collection directory with the git CLI after every transition: rev-list, ls-tree, status --porcelain, fsck --strict",
    "expected commit delta: +1 iff the versioned observable state (member listing with etags, properties stored in .xandikos) changed, else 0",
    "single-property PROPPATCH only, so one change = one commit is unambiguous",
]


def configs(tier):
    feats = {"git", "c2", "restart"}
    if tier == "thorough":
        feats = feats | {"fsck", "post"}
    bodies = {"cal": ["X", "X2", "XR", "BAD"], "ab": ["K"], "c2": ["X"]}
    props = {"cal": {"displayname": ["d1", None]}}
    out = [
        Config(front="wsgi", backend="tree", prefix="/", features=feats | {"fsck"}, bodies=bodies, props=props, oracles={"C09"}),
        Config(front="wsgi", backend="bare", prefix="/", features=feats, bodies=bodies, props=props, oracles={"C09"}),
    ]
    if tier == "thorough":
        out += [
            Config(front="aio", backend="tree", prefix="/dav/", features=feats, bodies=bodies, props=props, oracles={"C09"}),
            Config(front="wsgi", backend="tree", prefix="/", metadata="config", features=feats, bodies=bodies, props=props, oracles={"C09"}),
        ]
    return out


def run(tier, workers=None):
    def depth_of(cfg):
        return (2, None) if tier == "quick" else (4, 2500)

    return e1common.run_configs("C09", tier, configs(tier), depth_of, workers=workers, assumptions=ASSUME)
