"""C11 - calendar-query returns exactly the resources that match the filter.

E2: (a) the RFC 4791 section 9.9 boundary grid: every presence row of the four
tables x value kinds (UTC, floating, TZID, DATE) stored in one calendar, queried
with every (start, end) pair drawn from {bound-1s, bound, bound+1s} over all
bounds of all objects (plus open ends); (b) the structural grammar: nested
comp-filter / prop-filter / param-filter / is-not-defined / text-match
(collation x negate x needle position) to depth 3 over a second object set.
Every report is compared with an independent evaluator (xv.core.rfc4791).
"""

import datetime as dt
import itertools
import multiprocessing as mp
import posixpath
import urllib.parse
from zoneinfo import ZoneInfo

from ..core import bodies as B
from ..core import dav, davsys, ical, rfc4791 as R
from ..core.davsys import Config, DavSys, nl
from ..core.report import Reporter

UTC = dt.timezone.utc


def wrap(comp_lines, tz=False):
    lines = ["BEGIN:VCALENDAR", "VERSION:2.0", "PRODID:-//xv//C11//EN"]
    if tz:
        lines += B.TZ_BLOCK.split("\r\n")
    lines += comp_lines + ["END:VCALENDAR"]
    return ("\r\n".join(lines) + "\r\n").encode("utf-8")


def val(name, kind, utc_hms, date="20200310", paris_hms=None):
    """A date/date-time property line in the given value kind."""
    if kind == "utc":
        return "%s:%sT%sZ" % (name, date, utc_hms)
    if kind == "floating":
        return "%s:%sT%s" % (name, date, utc_hms)
    if kind == "tzid":
        return "%s;TZID=Europe/Paris:%sT%s" % (name, date, paris_hms)
    if kind == "date":
        return "%s;VALUE=DATE:%s" % (name, date)
    raise ValueError(kind)


def time_objects():
    """name -> (body, component, description) : every presence row of the 9.9 tables."""
    out = {}

    def add(name, comp, lines, tz=False):
        body = wrap(["BEGIN:" + comp, "UID:" + name, "DTSTAMP:20200101T000000Z"] + lines + ["END:" + comp], tz=tz)
        out[name + ".ics"] = (body, comp)

    for k in ("utc", "floating", "tzid", "date"):
        tz = k == "tzid"
        if k == "date":
            add("ev-dtend-date", "VEVENT", [val("DTSTART", "date", None), val("DTEND", "date", None, date="20200312")])
            add("ev-duration-date", "VEVENT", [val("DTSTART", "date", None), "DURATION:P2D"])
            add("ev-only-date", "VEVENT", [val("DTSTART", "date", None)])
            add("todo-start-due-date", "VTODO", [val("DTSTART", "date", None), val("DUE", "date", None, date="20200312")])
            add("todo-start-date", "VTODO", [val("DTSTART", "date", None)])
            add("journal-date", "VJOURNAL", [val("DTSTART", "date", None)])
            continue
        add("ev-dtend-" + k, "VEVENT", [val("DTSTART", k, "100000", paris_hms="110000"), val("DTEND", k, "120000", paris_hms="130000")], tz)
        add("ev-duration-" + k, "VEVENT", [val("DTSTART", k, "100000", paris_hms="110000"), "DURATION:PT2H"], tz)
        add("ev-zeroduration-" + k, "VEVENT", [val("DTSTART", k, "100000", paris_hms="110000"), "DURATION:PT0S"], tz)
        add("ev-only-" + k, "VEVENT", [val("DTSTART", k, "100000", paris_hms="110000")], tz)
        add("todo-start-duration-" + k, "VTODO", [val("DTSTART", k, "100000", paris_hms="110000"), "DURATION:PT2H"], tz)
        add("todo-start-due-" + k, "VTODO", [val("DTSTART", k, "100000", paris_hms="110000"), val("DUE", k, "120000", paris_hms="130000")], tz)
        add("todo-start-" + k, "VTODO", [val("DTSTART", k, "100000", paris_hms="110000")], tz)
        add("todo-due-" + k, "VTODO", [val("DUE", k, "120000", paris_hms="130000")], tz)
        add("journal-" + k, "VJOURNAL", [val("DTSTART", k, "100000", paris_hms="110000")], tz)
    # derived ends across a daylight-saving transition of the value's own zone (Europe/Paris: 29 March and 25 October 2020):
    # a duration in days keeps the wall-clock time, so these "days" last 23 and 25 hours
    add("ev-duration-dst-spring", "VEVENT", ["DTSTART;TZID=Europe/Paris:20200328T120000", "DURATION:P1D"], True)
    add("ev-duration-dst-autumn", "VEVENT", ["DTSTART;TZID=Europe/Paris:20201024T120000", "DURATION:P1D"], True)
    add("ev-duration-dst-mixed", "VEVENT", ["DTSTART;TZID=Europe/Paris:20200328T120000", "DURATION:P1DT1H"], True)
    add("todo-start-duration-dst-spring", "VTODO", ["DTSTART;TZID=Europe/Paris:20200328T120000", "DURATION:P1D"], True)
    add("todo-completed-created", "VTODO", ["COMPLETED:20200311T090000Z", "CREATED:20200309T080000Z"])
    add("todo-completed", "VTODO", ["COMPLETED:20200311T090000Z"])
    add("todo-created", "VTODO", ["CREATED:20200309T080000Z"])
    add("todo-nothing", "VTODO", ["SUMMARY:nothing"])
    add("journal-nothing", "VJOURNAL", ["SUMMARY:nothing"])
    add("fb-start-end", "VFREEBUSY", ["DTSTART:20200310T100000Z", "DTEND:20200310T120000Z"])
    add("fb-periods", "VFREEBUSY", ["FREEBUSY:20200310T100000Z/20200310T120000Z", "FREEBUSY;FBTYPE=BUSY:20200311T090000Z/PT1H"])
    add("fb-nothing", "VFREEBUSY", ["COMMENT:nothing"])
    return out


def bounds_of(body, comp, tz):
    """All instants the 9.9 tables compare against for this object, in the default zone tz."""
    cal = ical.parse_calendar(body)
    c = [s for s in cal.subs if s.name == comp][0]
    out = set()
    for n in ("DTSTART", "DTEND", "DUE", "COMPLETED", "CREATED"):
        p = c.get(n)
        if p is not None:
            out.add(R.to_instant(p, tz))
    ds = c.get("DTSTART")
    if ds is not None:
        if c.get("DURATION") is not None:
            out.add(R.plus(ds, tz, R.parse_duration(c.get("DURATION").value)))
        if R.is_date(ds):
            out.add(R.plus(ds, tz, dt.timedelta(days=1)))
    for p in c.getall("FREEBUSY"):
        for per in p.value.split(","):
            a, b = per.split("/")
            ps = R.to_instant(p, tz, a)
            out.add(ps)
            out.add(ps + R.parse_duration(b) if b.startswith("P") else R.to_instant(p, tz, b))
    return sorted(out)


def position(x, bs, what):
    """Model-level position of a query bound relative to the object's own bounds."""
    if x is None:
        return what + "=open"
    for i, b in enumerate(bs):
        if x == b:
            return "%s=b%d" % (what, i + 1)
        if x < b:
            return "%s<b%d" % (what, i + 1)
    return "%s>b%d" % (what, len(bs)) if bs else what + "=any"


def structure_objects():
    out = {}

    def add(name, lines, tz=False):
        out[name + ".ics"] = wrap(lines, tz=tz)

    ev = lambda uid, extra: ["BEGIN:VEVENT", "UID:" + uid, "DTSTAMP:20200101T000000Z", "DTSTART:20200310T100000Z"] + extra + ["END:VEVENT"]
    add("s-event-full", ev("s1", ["SUMMARY:Alpha beta", "LOCATION:Room 1", "ATTENDEE;CN=Jo Doe;ROLE=CHAIR:mailto:jo@example.com", "CATEGORIES:work"]))
    add("s-event-bare", ev("s2", []))
    add("s-event-other-summary", ev("s3", ["SUMMARY:gamma", "ATTENDEE;ROLE=OPT-PARTICIPANT:mailto:li@example.com"]))
    add("s-event-tz", ev("s4", ["SUMMARY:ALPHA BETA"]), tz=True)
    add("s-event-alarm", ev("s5", ["SUMMARY:with alarm", "BEGIN:VALARM", "ACTION:DISPLAY", "DESCRIPTION:ring", "TRIGGER:-PT15M", "END:VALARM"]))
    add("s-todo-open", ["BEGIN:VTODO", "UID:s6", "DTSTAMP:20200101T000000Z", "SUMMARY:Alpha beta", "STATUS:NEEDS-ACTION", "END:VTODO"])
    add("s-todo-done", ["BEGIN:VTODO", "UID:s7", "DTSTAMP:20200101T000000Z", "SUMMARY:done", "COMPLETED:20200311T090000Z", "STATUS:COMPLETED", "END:VTODO"])
    # properties that are present but "falsy": empty text, integer zero
    add("s-event-falsy", ev("s9", ["SUMMARY:", "LOCATION:", "PRIORITY:0", "SEQUENCE:0"]))
    add("s-todo-zero", ["BEGIN:VTODO", "UID:s10", "DTSTAMP:20200101T000000Z", "SUMMARY:zero", "PERCENT-COMPLETE:0", "PRIORITY:0", "END:VTODO"])
    # several components of one type in one resource (recurrence master + override, in both file orders): a comp-filter holds
    # if ANY of them satisfies it; only the naive path is judged on these (index values are per resource: C10 known finding)
    master = ["BEGIN:VEVENT", "UID:s11", "DTSTAMP:20200101T000000Z", "DTSTART:20200310T100000Z", "RRULE:FREQ=WEEKLY;COUNT=2", "SUMMARY:Alpha beta", "LOCATION:Room 1", "END:VEVENT"]
    override = ["BEGIN:VEVENT", "UID:s11", "DTSTAMP:20200101T000000Z", "RECURRENCE-ID:20200317T100000Z", "DTSTART:20200318T100000Z", "SUMMARY:gamma", "END:VEVENT"]
    add("s-multi-override-last", master + override)
    add("s-multi-override-first", [x.replace("s11", "s12") for x in override + master])
    add("s-journal", ["BEGIN:VJOURNAL", "UID:s8", "DTSTAMP:20200101T000000Z", "DTSTART:20200310T100000Z", "SUMMARY:Alpha beta", "END:VJOURNAL"])
    return out


NEEDLES = [("Alpha beta", "whole"), ("alpha BETA", "whole-other-case"), ("Alpha", "prefix"), ("beta", "suffix"), ("ha be", "infix"), ("zzz", "absent")]
COLLS = [None, "i;ascii-casemap", "i;octet"]


def structure_filters():
    """(filter, model-level class) exhaustive to nesting depth 3."""
    out = []
    comps = ["VEVENT", "VTODO", "VJOURNAL", "VFREEBUSY"]
    for c in comps:
        out.append((R.comp("VCALENDAR", comps=[R.comp(c)]), "comp-defined"))
        out.append((R.comp("VCALENDAR", comps=[R.comp(c, not_defined=True)]), "comp-is-not-defined"))
        for p in ("SUMMARY", "LOCATION", "COMPLETED", "ATTENDEE", "X-NONE", "PRIORITY", "PERCENT-COMPLETE", "SEQUENCE"):
            out.append((R.comp("VCALENDAR", comps=[R.comp(c, props=[R.prop(p)])]), "prop-defined"))
            out.append((R.comp("VCALENDAR", comps=[R.comp(c, props=[R.prop(p, not_defined=True)])]), "prop-is-not-defined"))
        for (needle, pos) in NEEDLES:
            for coll in COLLS:
                for neg in (False, True):
                    out.append((R.comp("VCALENDAR", comps=[R.comp(c, props=[R.prop("SUMMARY", text=(needle, coll, neg))])]),
                                "text-match:%s:%s%s" % (pos, coll or "default", ":negated" if neg else "")))
    out.append((R.comp("VCALENDAR"), "vcalendar-only"))
    out.append((R.comp("VCALENDAR", props=[R.prop("VERSION")]), "vcalendar-prop-defined"))
    out.append((R.comp("VCALENDAR", props=[R.prop("METHOD", not_defined=True)]), "vcalendar-prop-is-not-defined"))
    out.append((R.comp("VCALENDAR", comps=[R.comp("VTIMEZONE")]), "comp-defined"))
    out.append((R.comp("VCALENDAR", comps=[R.comp("VTIMEZONE", not_defined=True)]), "comp-is-not-defined"))
    # depth 3: comp in comp, param-filter in prop-filter
    out.append((R.comp("VCALENDAR", comps=[R.comp("VEVENT", comps=[R.comp("VALARM")])]), "nested-comp-defined"))
    out.append((R.comp("VCALENDAR", comps=[R.comp("VEVENT", comps=[R.comp("VALARM", not_defined=True)])]), "nested-comp-is-not-defined"))
    for q in ("CN", "ROLE", "X-NONE"):
        out.append((R.comp("VCALENDAR", comps=[R.comp("VEVENT", props=[R.prop("ATTENDEE", params=[R.param(q)])])]), "param-defined"))
        out.append((R.comp("VCALENDAR", comps=[R.comp("VEVENT", props=[R.prop("ATTENDEE", params=[R.param(q, not_defined=True)])])]), "param-is-not-defined"))
    for (needle, pos) in [("CHAIR", "whole"), ("chair", "whole-other-case"), ("CHA", "prefix"), ("zzz", "absent")]:
        for neg in (False, True):
            out.append((R.comp("VCALENDAR", comps=[R.comp("VEVENT", props=[R.prop("ATTENDEE", params=[R.param("ROLE", text=(needle, None, neg))])])]),
                        "param-text-match:%s%s" % (pos, ":negated" if neg else "")))
    # two prop-filters (AND), prop-filter + time-range
    out.append((R.comp("VCALENDAR", comps=[R.comp("VEVENT", props=[R.prop("SUMMARY"), R.prop("LOCATION", not_defined=True)])]), "two-prop-filters"))
    out.append((R.comp("VCALENDAR", comps=[R.comp("VEVENT", props=[R.prop("SUMMARY", text=("alpha beta", None, False)), R.prop("LOCATION")])]), "two-prop-filters"))
    t0 = dt.datetime(2020, 3, 1, tzinfo=UTC)
    t1 = dt.datetime(2020, 4, 1, tzinfo=UTC)
    t2 = dt.datetime(2020, 5, 1, tzinfo=UTC)
    out.append((R.comp("VCALENDAR", comps=[R.comp("VEVENT", time_range=(t0, t1), props=[R.prop("SUMMARY")])]), "time-range+prop-filter"))
    out.append((R.comp("VCALENDAR", comps=[R.comp("VEVENT", time_range=(t1, t2), props=[R.prop("SUMMARY")])]), "time-range+prop-filter"))
    out.append((R.comp("VCALENDAR", comps=[R.comp("VEVENT", props=[R.prop("DTSTART", time_range=(t0, t1))])]), "prop-time-range"))
    out.append((R.comp("VCALENDAR", comps=[R.comp("VEVENT", props=[R.prop("DTSTART", time_range=(t1, t2))])]), "prop-time-range"))
    out.append((R.comp("VCALENDAR", comps=[R.comp("VTODO", props=[R.prop("COMPLETED", time_range=(t0, t1))])]), "prop-time-range"))
    return out


def query_body(fxml, tzid=None, data=False):
    props = [dav.P_GETETAG] + ([dav.P_CALDATA] if data else [])
    tzel = ""
    if tzid:
        tzcal = "BEGIN:VCALENDAR\r\nVERSION:2.0\r\nPRODID:-//xv//EN\r\nBEGIN:VTIMEZONE\r\nTZID:%s\r\nEND:VTIMEZONE\r\nEND:VCALENDAR\r\n" % tzid
        tzel = "<C:timezone>%s</C:timezone>" % tzcal
    return ('<?xml version="1.0" encoding="utf-8"?><C:calendar-query xmlns:D="DAV:" xmlns:C="%s"><D:prop>%s</D:prop><C:filter>%s</C:filter>%s</C:calendar-query>' % (
        dav.CAL, "".join(dav._tag_xml(p) for p in props), fxml, tzel)).encode("utf-8")


def _worker(args):
    cfg, mode, objects, jobs, base_tzid = args
    tzid = base_tzid
    vios = {}
    stats = {"queries": 0, "pairs": 0, "matches": 0, "nontrivial_filters": 0, "requests": 0, "rows": set(), "errors": 0}
    default_tz = ZoneInfo(tzid) if tzid else UTC

    def vio(what, summary, detail):
        sig = "C11|%s" % what
        e = vios.get(sig)
        if e is None:
            vios[sig] = {"summary": summary, "witness": dict(detail, config=cfg.label, timezone=tzid or "server default (UTC)"), "count": 1}
        else:
            e["count"] += 1

    s = DavSys(cfg)
    try:
        s.replay([])
        stored = {}
        for name, body in objects.items():
            r = s.req("PUT", s.url("cal", name), {"Content-Type": B.CT_ICS}, body)
            if dav.effective_status(r) not in (200, 201, 204):
                vio("object-refused:%s" % name, "grid object %s was refused with %s" % (name, dav.effective_status(r)), {"body": body})
                continue
            stored[name] = s.req("GET", s.url("cal", name)).body
        passes = [("", jobs)]
        if mode == "structure" and jobs and cfg.threshold is not None and cfg.threshold >= 1000:
            passes.append(("after-delete-and-recreate:", jobs[::3]))
        for (phase, pjobs) in passes:
          if phase:
            # every name is deleted and created again with ANOTHER object's content: nothing may remember the old one
            names_ = sorted(stored)
            for n_ in names_:
                s.req("DELETE", s.url("cal", n_))
            bodies_ = [objects[n_] for n_ in names_]
            stored = {}
            for n_, b_ in zip(names_, bodies_[1:] + bodies_[:1]):
                r_ = s.req("PUT", s.url("cal", n_), {"Content-Type": B.CT_ICS}, b_)
                if dav.effective_status(r_) in (200, 201, 204):
                    g_ = s.req("GET", s.url("cal", n_))
                    stored[n_] = g_.body
                    if g_.status != 200 or not ical.same_calendar(g_.body, b_):
                        # the truth is what was uploaded, not what GET says now
                        stored[n_] = b_
                        vio("after-delete-and-recreate:get-serves-old-object", "after DELETE and a new PUT of %s, GET does not serve the new object" % n_, {"name": n_})
          for job in pjobs:
            tzid = base_tzid
            default_tz = ZoneInfo(tzid) if tzid else UTC
            if mode == "time":
                comp, start, end = job[:3]
                if len(job) > 3:
                    tzid = job[3]
                    default_tz = ZoneInfo(tzid) if tzid else UTC
                job = (comp, start, end)
                f = R.comp("VCALENDAR", comps=[R.comp(comp, time_range=(start, end))])
                cls = "time-range"
            else:
                f, cls = job
            cls = phase + cls
            fxml = R.to_xml(f)
            want_data = stats["queries"] % 7 == 0
            index_on = cfg.threshold is not None and cfg.threshold < 1000
            if index_on:
                # index pass: the first answer comes from the naive path (and extends the index), the second from the index
                s.req("REPORT", s.url("cal"), dict(dav.XML_CT, Depth="1"), query_body(fxml, tzid, data=False))
                cls = cls + ":via-index"
            r = s.req("REPORT", s.url("cal"), dict(dav.XML_CT, Depth="1"), query_body(fxml, tzid, data=want_data))
            stats["queries"] += 1
            expected = {}
            for name, body in stored.items():
                try:
                    expected[name] = R.matches(f, body, default_tz)
                except Exception as e:  # the evaluator must define an answer for every grid case
                    vio("evaluator-error", "reference evaluator failed: %s" % e, {"filter": fxml, "object": name})
                    expected[name] = None
            if r.status != 207:
                stats["errors"] += 1
                what = cls if mode != "time" else "time-range:%s" % job[0]
                vio("query-fails:%s:%s" % (what, r.status), "calendar-query answered %s %s" % (r.status, (r.exc or "")[:200]), {"filter": fxml})
                continue
            ms = dav.parse_multistatus(r.body)
            got = {}
            for x in ms.responses:
                nm = urllib.parse.unquote(posixpath.basename(x.href or ""))
                got[nm] = x
            nmatch = 0
            for name, body in stored.items():
                exp = expected[name]
                if exp is None:
                    continue
                stats["pairs"] += 1
                isin = name in got
                if exp:
                    nmatch += 1
                if isin == exp:
                    if isin and want_data:
                        d = got[name].prop_text(dav.P_CALDATA)
                        if d is None or nl(d.encode("utf-8")) != nl(body):
                            vio("calendar-data-differs", "calendar-data returned by the query is not the resource's content", {"filter": fxml, "object": name})
                    continue
                direction = "returned-but-does-not-match" if isin else "matches-but-not-returned"
                if mode == "time":
                    comp, start, end = job
                    ocomp = objects_comp[name]
                    via = ":via-index" if index_on else ""
                    if ocomp != comp:
                        what = "time-range:%s:object-of-other-type-%s:%s" % (comp, ocomp, direction)
                        detail = {}
                    else:
                        cal = ical.parse_calendar(body)
                        c = [x for x in cal.subs if x.name == comp][0]
                        row = R.time_range_row(c)
                        stats["rows"].add(row)
                        bs = bounds_of(body, comp, default_tz)
                        kind = name.rsplit("-", 1)[-1].replace(".ics", "")
                        kind = kind if kind in ("utc", "floating", "tzid", "date") else "utc"
                        what = "time-range%s:row-%s:%s:%s:%s:%s" % (via, row, kind, position(start, bs, "start"), position(end, bs, "end"), direction)
                        detail = {"row": row, "bounds": [R.fmt_utc(b) for b in bs]}
                    vio(what, "object %s: %s (RFC 4791 9.9 %s)" % (name, direction, detail.get("row", "")), dict(detail, filter=fxml, object=name, body=body))
                else:
                    what = "structure:%s:%s:%s" % (cls, name.replace(".ics", ""), direction)
                    parts = [x for x in cls.split(":") if x not in ("via-index", "after-delete-and-recreate")]
                    if parts[0] in ("text-match", "param-text-match") and parts[1] in ("prefix", "suffix", "infix"):
                        # the disagreement an equality test (instead of RFC 4791 9.7.5 substring) produces, and only that
                        negated = parts[-1] == "negated"
                        if direction == ("returned-but-does-not-match" if negated else "matches-but-not-returned"):
                            what = "structure:%s-is-equality-not-substring:%s-needle" % (parts[0], parts[1])
                    vio(what, "filter class %s, object %s: %s" % (cls, name, direction), {"filter": fxml, "object": name, "body": body})
            stats["matches"] += nmatch
            if 0 < nmatch < len(stored):
                stats["nontrivial_filters"] += 1
            extra = set(got) - set(stored)
            if extra:
                vio("unknown-href-in-result", "the report lists hrefs that are not members: %s" % sorted(extra), {"filter": fxml})
        stats["requests"] = s.nreq
    finally:
        s.close()
    stats["rows"] = sorted(stats["rows"])
    return vios, stats


objects_comp = {}


def run(tier, workers=None):
    rep = Reporter("C11", tier)
    nw = workers or 16
    names = {"cal": [], "ab": [], "c2": []}
    # index never built: C11 judges the filter semantics (the naive path); index transparency is C10's business
    cfg = Config(front="wsgi", backend="tree", prefix="/", names=names, features=set(), threshold=10 ** 6)
    tobjs = time_objects()
    for n, (b, c) in tobjs.items():
        objects_comp[n] = c
    tz_list = [None] if tier == "quick" else [None, "America/New_York"]
    jobs_all = []
    n_ranges = 0
    for tzid in tz_list:
        tz = ZoneInfo(tzid) if tzid else UTC
        crit = set()
        for n, (b, c) in tobjs.items():
            crit.update(bounds_of(b, c, tz))
        pts = set()
        for c in crit:
            for d in (-1, 0, 1):
                pts.add(c + dt.timedelta(seconds=d))
        pts = sorted(pts)
        ranges = []
        for a in [None] + pts:
            for b in pts + [None]:
                if a is None and b is None:
                    continue
                if a is not None and b is not None and not a < b:
                    continue
                ranges.append((a, b))
        if tier == "quick":
            # quick: every (start, end) whose both ends are within one second of a bound of the SAME object, plus open ends
            keep = []
            per_obj = [set(bounds_of(b, c, tz)) for (b, c) in tobjs.values()]
            near = lambda x, bs: x is None or any(abs((x - y).total_seconds()) <= 1 for y in bs)
            for (a, b) in ranges:
                if any(near(a, bs) and near(b, bs) and bs for bs in per_obj):
                    keep.append((a, b))
            ranges = keep
        n_ranges += len(ranges)
        tjobs = [(comp, a, b) for comp in ("VEVENT", "VTODO", "VJOURNAL", "VFREEBUSY") for (a, b) in ranges]
        tbodies = {n: b for n, (b, c) in tobjs.items()}
        for i in range(nw):
            chunk = tjobs[i::nw]
            if chunk:
                jobs_all.append((cfg, "time", tbodies, chunk, tzid))
    # several time zones interleaved in ONE world: nothing converted for one request's zone may leak into the next
    mt = []
    tzs = [None, "America/New_York", "Pacific/Auckland"]
    for comp in ("VEVENT", "VTODO", "VJOURNAL"):
        for (a, b) in (ranges[::7] if tier == "quick" else ranges[::2]):
            for z in tzs:
                mt.append((comp, a, b, z))
    tb = {n: b for n, (b, c) in tobjs.items()}
    k = min(nw, 8)
    step = (len(mt) + k - 1) // k
    for i in range(0, len(mt), step):
        jobs_all.append((cfg, "time", tb, mt[i:i + step], None))
    sfilters = structure_filters()
    sobjs = structure_objects()
    for n in sobjs:
        objects_comp[n] = "?"
    for i in range(min(nw, 8)):
        chunk = sfilters[i::min(nw, 8)]
        if chunk:
            jobs_all.append((cfg, "structure", sobjs, chunk, None))
    # index pass: the same semantics must come out of the index-based evaluation (--index-threshold 0, each query issued twice).
    # Objects the index is known not to handle (C10 findings: several components of one type, FREEBUSY periods) are left out.
    icfg = Config(front="wsgi", backend="tree", prefix="/", names=names, features=set(), threshold=0)
    # param-filters are left out of the index pass: their index keys make the index path fail (C10 known finding)
    ifilters = [x for x in sfilters if not x[1].startswith("param-")]
    sobjs_index = {n: b for n, b in sobjs.items() if not n.startswith("s-multi")}
    for i in range(min(nw, 8)):
        chunk = ifilters[i::min(nw, 8)]
        if chunk:
            jobs_all.append((icfg, "structure", sobjs_index, chunk, None))
    # (derived ends across a DST transition are kept out of the index pass: index values are stored in UTC, so the index path
    # adds day durations as exact 24 hours - listed under C10)
    itime = {n: b for n, (b, c) in tobjs.items() if c != "VFREEBUSY" and "-dst-" not in n}
    tz0 = UTC
    ibounds = sorted({x for n, (b, c) in tobjs.items() if c != "VFREEBUSY" and "-dst-" not in n for x in bounds_of(b, c, tz0)})
    iranges = []
    for a in [None] + ibounds:
        for b in ibounds + [None]:
            if (a is None and b is None) or (a is not None and b is not None and not a < b):
                continue
            iranges.append((a, b))
    ijobs = [(comp, a, b) for comp in ("VEVENT", "VTODO", "VJOURNAL") for (a, b) in iranges]
    if tier == "quick":
        ijobs = ijobs[::3]
    for i in range(min(nw, 8)):
        chunk = ijobs[i::min(nw, 8)]
        if chunk:
            jobs_all.append((icfg, "time", itime, chunk, None))
    ctx = mp.get_context("fork")
    with ctx.Pool(nw) as pool:
        results = pool.map(_worker, jobs_all, chunksize=1)
    tot = {"queries": 0, "pairs": 0, "matches": 0, "nontrivial_filters": 0, "requests": 0, "errors": 0}
    rows = set()
    for vios, stats in results:
        rep.merge(vios)
        for k in tot:
            tot[k] += stats[k]
        rows |= set(stats["rows"])
    cov = {
        "evaluations": tot["pairs"],
        "distinct_nontrivial": tot["nontrivial_filters"],
        "rule": "one evaluation = one (filter, stored object) pair decided by the report and by the reference evaluator; a filter is non-trivial when it matches some but not all stored objects (counted per distinct filter)",
        "samples": [R.to_xml(R.comp("VCALENDAR", comps=[R.comp("VTODO", time_range=(dt.datetime(2020, 3, 10, 10, tzinfo=UTC), dt.datetime(2020, 3, 10, 12, tzinfo=UTC)))]))] + [R.to_xml(f) for f, _ in sfilters[:3]],
        "queries": tot["queries"],
        "queries_answered_with_error": tot["errors"],
        "matching_pairs": tot["matches"],
        "time_objects": len(tobjs),
        "time_ranges": n_ranges,
        "structure_filters": len(sfilters),
        "structure_objects": len(sobjs),
        "timezones": [t or "server default (TZ=UTC)" for t in tz_list],
        "requests_executed": tot["requests"],
        "exhaustive": True,
    }
    from . import sizes

    cov.update(sizes.run_sweep(rep, "C11", ['calendar-query']))
    return rep.finish("exploration", cov, assumptions=[
        "size sweep: the collection is grown member by member to 140 and the same view is checked at every size up to 8 and around 16, 32, 64, 100 and 128",
        "RFC 4791 9.9 tables as reproduced in xv/core/rfc4791.py (written from the RFC, no icalendar import); text-match is a substring match under the collation (9.7.5)",
        "not generated: boundary equality for property-level time-range, properties occurring more than once in a component, DUE+DURATION, DURATION without DTSTART, VEVENT without DTSTART, recurrence expansion, VALARM time-range",
        "floating and DATE values are taken in the CALDAV:timezone of the request, else the server zone (TZ=UTC in the harness)",
        "calendar-data is compared with GET modulo CRLF->LF (XML text normalisation)",
    ])
