"""C01 - collection contents always equal the outcome of the acknowledged writes."""

from ..core.davsys import Config
from . import e1common

ASSUME = [
    "one configuration also audits filtered listings (calendar-query per component type, each asked twice, index threshold 0) against the model",
    "one configuration uploads through the real socket with the body arriving in two pieces 40 ms apart (plain files and calendars): what is acknowledged must be the whole body",
    "one configuration has two workers: a second application object with its own store cache on the same directory (gunicorn workers = 2 in the repository's examples); every write is offered to either worker, and after every request both workers are audited and must show the same",
    "alphabet: 2 names x 4 bodies per calendar, 1 name x 2 cards, one extra collection, POST add-member, restart",
    "the audit after every transition itself issues PROPFIND/GET on every name (reads are part of every step)",
    "store-API back ends (bare-memory, vdir) are explored by the store-level driver in the same check (see per_config)",
]


def configs(tier):
    feats = {"c2", "post", "restart", "nope", "head"}
    if tier == "thorough":
        feats = feats | {"burst"}
    props = {"cal": {"displayname": ["d1"]}}
    # R1/R2: one object in two versions whose repeated properties (ATTENDEE, EXDATE, CATEGORIES) overlap
    rb = {"cal": ["X", "R1", "R2", "BAD"], "ab": ["K", "L"], "c2": ["X", "Z"]}
    out = [
        Config(front="wsgi", backend="tree", prefix="/", features=feats | {"burst"}, props=props, oracles={"C01"}),
        # filtered listings (calendar-query per component type, index in use from the first query on)
        Config(front="wsgi", backend="bare", prefix="/", threshold=0, features={"shapes", "restart"}, names={"cal": ["a.ics", "b.ics"], "ab": [], "c2": []}, bodies={"cal": ["X", "T", "X2"], "ab": [], "c2": []},
               props={}, oracles={"C01"}, label="bare/wsgi+filtered-listings"),
        # (member names starting with a dot in this configuration)
        Config(front="aio", backend="tree", prefix="/dav/", features=feats, names={"cal": ["a.ics", ".b.ics"], "ab": [".a.vcf"], "c2": ["a.ics"]}, props=props, oracles={"C01"}),
        Config(front="wsgi", backend="bare", prefix="/dav/", features=feats, props=props, bodies=rb, oracles={"C01"}),
    ]
    tw = dict(names={"cal": ["a.ics", "b.ics"], "ab": ["a.vcf"], "c2": []}, bodies={"cal": ["X", "X2"], "ab": ["K"], "c2": []}, props=props, oracles={"C01"})
    out.append(Config(front="wsgi", backend="tree", prefix="/", features={"two-workers", "restart", "head", "recreate"}, label="tree/wsgi+two-workers", **tw))
    if tier == "thorough":
        out.append(Config(front="wsgi", backend="bare", prefix="/", features={"two-workers", "restart", "head", "recreate"}, label="bare/wsgi+two-workers", **tw))
    # slow uploads through the real socket (the body arrives in two pieces) of files that are stored byte for byte
    out.append(Config(front="aio", backend="tree", prefix="/", features={"slow-body"}, names={"cal": ["n.txt", "a.ics"], "ab": [], "c2": []}, bodies={"cal": ["TXT", "TXT2", "X"], "ab": [], "c2": []},
                      props={}, oracles={"C01"}, label="tree/aio+slow-body"))
    # member names the store uses for itself
    out.append(Config(front="wsgi", backend="tree" if tier == "quick" else "bare", prefix="/", features={"restart"}, names={"cal": ["a.ics", ".xandikos"], "ab": [".xandikos"], "c2": []},
                      bodies={"cal": ["X", "CFG"], "ab": ["CFG", "K"], "c2": []}, props=props, oracles={"C01"}, label="%s/wsgi+reserved-names" % ("tree" if tier == "quick" else "bare")))
    out.append(e1common.StoreCfg(kinds=("tree", "bare", "mem", "vdir"), bodies=("X", "X2", "Z", "BAD", "R1", "R2"), oracles={"C01"}, features={"restart", "differential"} | ({"etagargs"} if tier == "thorough" else set())))
    if tier == "thorough":
        out += [
            Config(front="aio", backend="bare", prefix="/", features=feats, props=props, oracles={"C01"}),
            Config(front="wsgi", backend="tree", prefix="/a/b/", features=feats | {"cond"}, props=props, oracles={"C01"}),
        ]
    return out


def run(tier, workers=None):
    def seeds(cfg):
        if isinstance(cfg, e1common.StoreCfg):
            return [[("put", "a.ics", "X", None), ("put", "b.ics", "Z", None), ("delete", "a.ics", None)]]
        if "two-workers" in cfg.features or "reserved-names" in cfg.label or "slow-body" in cfg.features or "shapes" in cfg.features:
            return []
        hs = [[("mkcalendar", "c2"), ("put", "c2", "a.ics", "X")], [("put", "cal", "a.ics", "X"), ("put", "cal", "b.ics", "Z"), ("delete", "cal", "a.ics")],
              [("put", "cal", "a.ics", "X"), ("restart",), ("put", "cal", "a.ics", "X2")]]
        if tier == "quick":
            # quick: one seeded state per configuration
            return [hs[["tree/wsgi", "tree/aio@/dav/", "bare/wsgi@/dav/"].index(cfg.label) % 3]] if cfg.label in ("tree/wsgi", "tree/aio@/dav/", "bare/wsgi@/dav/") else hs[:1]
        return hs

    def depth_of(cfg):
        if isinstance(cfg, e1common.StoreCfg):
            return (3, None) if tier == "quick" else (6, 6000)
        if tier == "quick":
            return (2, None)
        return (4, 4000)

    faults = {
        # the fault phase runs on the core configurations (the special-purpose ones share the same write path)
        "configs": [c for c in configs(tier) if "+" not in getattr(c, "label", "") or c.label.endswith("+cfgmeta")],
        "histories": [[], [("put", "cal", "a.ics", "X")], [("put", "cal", "a.ics", "X"), ("put", "cal", "b.ics", "Z")]],
        "ops": [("put", "cal", "a.ics", "X2"), ("delete", "cal", "a.ics"), ("proppatch", "cal", "displayname", "d1"), ("post", "cal", "T")] + ([("put", "ab", "a.vcf", "K"), ("put", "cal", "b.ics", "Z")] if tier == "thorough" else []),
    }
    return e1common.run_configs("C01", tier, configs(tier), depth_of, workers=workers, seeds=seeds, extra=store_fault_phase, assumptions=ASSUME + [
        "store fault phase: on vdir, tree and bare stores (Store API), at three states, every single placement of an ENOSPC failure on a mutating file-system call of import_one / delete_one; an operation that then raises must leave listing, ETags and contents as they were, also after reopening",
        "fault phase: at three states, every single placement of an ENOSPC failure on a mutating file-system call of PUT/DELETE/PROPPATCH/POST; a request that then fails must change nothing observable and must not wedge the collection",
    ], faults=faults)


def store_fault_phase(rep):
    """Every single ENOSPC placement on the mutating file-system calls of one store operation (vdir is only reachable through the Store API)."""
    from ..core import bodies as B
    from ..core import sched
    from ..core.storesys import OneStore

    stats = {"cases": 0, "points": 0, "failed_ops": 0, "succeeded_despite_fault": 0}
    names = ("a.ics", "b.ics")

    def view(st):
        return (st.listing(), {n: st.read(n) for n in names})

    for kind in ("vdir", "tree", "bare"):
        for hist in ([], [("a.ics", "X")], [("a.ics", "X"), ("b.ics", "Z")]):
            for op in (("put", "a.ics", "X2"), ("put", "b.ics", "Z"), ("delete", "a.ics")):
                stats["cases"] += 1
                k = 0
                while k < 80:
                    st = OneStore(kind)
                    try:
                        for n, b in hist:
                            st.put(n, B.ALL_BODIES[b])
                        before = view(st)
                        with sched.FaultInjector(st.dir, k) as inj:
                            r = st.put(op[1], B.ALL_BODIES[op[2]]) if op[0] == "put" else st.delete(op[1])
                        if inj.fired is None:
                            break
                        stats["points"] += 1
                        if r[0] == "ok":
                            stats["succeeded_despite_fault"] += 1
                        else:
                            stats["failed_ops"] += 1
                            after = view(st)
                            reopened = view(st) if st.restart() else after
                            for what, v in (("same-handle", after), ("reopened", reopened)):
                                if v != before:
                                    changed = sorted(n for n in names if v[1].get(n) != before[1].get(n) or v[0].get(n) != before[0].get(n))
                                    rep.violation("C01|store:%s|failed-operation-changed-state:%s:%s" % (kind, op[0], what),
                                                  "a store operation that raised (%s, ENOSPC on mutating call %d: %s) changed %s" % (r[0], k, inj.fired.split(":")[0], changed),
                                                  {"kind": kind, "history": hist, "op": op, "fault_k": k, "fault_at": inj.fired, "result": r[0], "before": repr(before)[:500], "after": repr(v)[:500]})
                                    break
                    finally:
                        st.close()
                    k += 1
    return {"store_fault_phase": stats}
