"""C13 - no request can touch the file system outside the data directory.

E2 over an adversarial path grammar (all segment sequences up to the bound x
10 methods x front ends), with three monitors: Python audit events of the
server (every path realpath-resolved at event time), a content hash of
everything around the root before/after each request, and canary strings in
the decoy files that must never appear in a response.
"""

import hashlib
import itertools
import re
import multiprocessing as mp
import os
import shutil
import threading
import urllib.parse

from ..core import bodies as B
from ..core import dav, davsys, env, fsaudit, http
from ..core.report import Reporter

CANARY = "XV-CANARY-7f3a"

TRAVERSAL = ["..", "%2e%2e", "%2E%2e", ".%2e", "..%2f", "%2e%2e%2f"]
SEGMENTS = TRAVERSAL + [".", "%2f", "", "user", "calendars", "calendar", "sibling", "secret.ics", "x", "a" * 300, "root-evil"]
METHODS = ["GET", "HEAD", "PUT", "POST", "DELETE", "MKCOL", "MKCALENDAR", "PROPFIND", "PROPPATCH", "PROPPATCH:settings", "REPORT"]


def make_sandbox(base):
    """base/outer/mid/root is the data directory; everything else under base is a decoy."""
    outer = os.path.join(base, "outer")
    root = os.path.join(outer, "mid", "root")
    os.makedirs(os.path.dirname(root))
    shutil.copytree(davsys.template_root("tree"), root, symlinks=True)
    decoy_ics = B.ics("decoy", CANARY)
    with open(os.path.join(outer, "secret.ics"), "wb") as f:
        f.write(decoy_ics)
    # a real collection next to the root, with a member
    sib = os.path.join(outer, "mid", "sibling")
    shutil.copytree(os.path.join(root, "user", "calendars", "calendar"), sib, symlinks=True)
    with open(os.path.join(sib, "member.ics"), "wb") as f:
        f.write(decoy_ics)
    os.mkdir(os.path.join(outer, "mid", "root-evil"))
    with open(os.path.join(outer, "mid", "root-evil", "secret.ics"), "wb") as f:
        f.write(decoy_ics)
    # the whole surrounding tree is somebody's git checkout (decoys tracked): nothing may be found by walking UP from the root
    import subprocess

    e = dict(os.environ, GIT_AUTHOR_NAME="x", GIT_AUTHOR_EMAIL="x@x", GIT_COMMITTER_NAME="x", GIT_COMMITTER_EMAIL="x@x")
    subprocess.run(["git", "init", "-q", outer], check=True, env=e, stdout=subprocess.DEVNULL, stderr=subprocess.DEVNULL)
    subprocess.run(["git", "-C", outer, "add", "secret.ics", "mid/root-evil/secret.ics"], check=True, env=e, stdout=subprocess.DEVNULL, stderr=subprocess.DEVNULL)
    subprocess.run(["git", "-C", outer, "commit", "-q", "-m", "decoys"], check=True, env=e, stdout=subprocess.DEVNULL, stderr=subprocess.DEVNULL)
    absd = os.path.join(base, "absdecoy")
    os.mkdir(absd)
    with open(os.path.join(absd, "secret.ics"), "wb") as f:
        f.write(decoy_ics)
    return outer, root, absd


def tree_hash(paths, exclude):
    """Hash of names + contents of everything under paths, except the subtree `exclude`."""
    h = hashlib.sha1()
    for top in paths:
        for dp, dns, fns in os.walk(top):
            dns[:] = sorted(d for d in dns if os.path.join(dp, d) != exclude)
            h.update(("D %s\n" % os.path.relpath(dp, top)).encode())
            for fn in sorted(fns):
                p = os.path.join(dp, fn)
                h.update(("F %s " % os.path.relpath(p, top)).encode())
                try:
                    if os.path.islink(p):
                        h.update(os.readlink(p).encode())
                    else:
                        with open(p, "rb") as f:
                            h.update(hashlib.sha1(f.read()).digest())
                except OSError as e:
                    h.update(str(e).encode())
    return h.hexdigest()


def root_intact(root):
    return os.path.isdir(os.path.join(root, "user", "calendars", "calendar", ".git")) and os.path.isdir(os.path.join(root, "user", "contacts", "addressbook"))


def seg_class(seg):
    if seg.startswith("@ABS:") or seg.startswith("dev/shm") or "/" in seg:
        return "absolute-path"
    if seg in TRAVERSAL:
        return "traversal"
    if seg in (".", "", "%2f"):
        return "dot-or-slash"
    if len(seg) > 200:
        return "overlong"
    return "name"


def request_for(method, target, prefix):
    hdr = {}
    body = b""
    if method in ("POST:uid-ics", "POST:uid-vcf", "PUT:uid-ics"):
        # the adversarial string is not in the request target but in the body, as the UID of the object: a POST lets the
        # server pick the member name, and whatever it derives it from must not become a path
        uid = target
        p = prefix.rstrip("/")
        if method == "POST:uid-vcf":
            body = ("BEGIN:VCARD\r\nVERSION:3.0\r\nUID:%s\r\nFN:Trav\r\nN:Trav;;;;\r\nEND:VCARD\r\n" % uid).encode("utf-8")
            return "POST", p + davsys.COLL_PATHS["ab"], {"Content-Type": B.CT_VCF}, body
        body = B.ics(uid, "traversal")
        if method == "PUT:uid-ics":
            return "PUT", p + davsys.COLL_PATHS["cal"] + "byuid.ics", {"Content-Type": B.CT_ICS}, body
        return "POST", p + davsys.COLL_PATHS["cal"], {"Content-Type": B.CT_ICS}, body
    if method == "PUT":
        hdr = {"Content-Type": B.CT_ICS}
        body = B.ics("trav-uid", "traversal")
    elif method == "POST":
        hdr = {"Content-Type": B.CT_ICS}
        body = B.ics("trav-post", "traversal")
    elif method == "PROPFIND":
        hdr = dict(dav.XML_CT, Depth="1")
        body = dav.propfind_body([dav.P_GETETAG, dav.P_RESOURCETYPE, dav.P_DISPLAYNAME])
    elif method == "PROPPATCH":
        hdr = dict(dav.XML_CT)
        body = dav.proppatch_body(sets=[(dav.P_DISPLAYNAME, "pwned")])
    elif method == "PROPPATCH:settings":
        # properties that are kept in files of their own (client settings on principals), colours, descriptions
        method = "PROPPATCH"
        hdr = dict(dav.XML_CT)
        body = dav.proppatch_body(sets=[("{http://inf-it.com/ns/dav/}settings", CANARY + " settings"), (dav.P_CALCOLOR, "#123456"), (dav.P_CALDESC, CANARY + " description")])
    elif method == "REPORT":
        # the adversarial path is the href inside a multiget sent to the real calendar
        hdr = dict(dav.XML_CT, Depth="1")
        body = dav.multiget_body("calendar", [target], [dav.P_GETETAG, dav.P_CALDATA])
        target = prefix.rstrip("/") + davsys.COLL_PATHS["cal"]
    return method, target, hdr, body


class Front:
    """A front end on a sandbox with its monitor."""

    def __init__(self, kind, prefix):
        self.kind = kind
        self.prefix = prefix
        self.base = env.fresh_dir("sb")
        self.outer, self.root, self.absd = make_sandbox(self.base)
        self.template = os.path.join(self.base, "root-template")
        shutil.copytree(self.root, self.template, symlinks=True)
        # the process-wide scratch directory ($TMPDIR) is outside the data directory too, and is watched
        self.tmpdir = os.path.join(self.base, "tmpdir")
        os.mkdir(self.tmpdir)
        self.watched = [self.outer, self.absd, self.tmpdir]
        self.log = None
        self.logpos = 0
        self.world = None
        self.start()

    def start(self):
        if self.kind == "proc":
            self.log = os.path.join(self.base, "events.log")
            open(self.log, "w").close()
            self.logpos = 0
            self.world = http.ProcWorld(self.root, prefix=self.prefix, audit=(self.log, self.watched), extra_env={"TMPDIR": self.tmpdir})
        else:
            import tempfile

            os.environ["TMPDIR"] = self.tmpdir
            tempfile.tempdir = None
            tempfile.gettempdir()  # (Python probes a new scratch directory with a throw-away file: do that now, not inside a request)
            self.mon = fsaudit.install(self.watched)
            if self.kind == "aio":
                self.world = http.AioWorld(self.root, prefix=self.prefix)
            elif self.kind == "wsgi":
                self.world = http.WsgiWorld(self.root, prefix=self.prefix)
            elif self.kind == "wsgiref":
                self.world = WsgirefWorld(self.root, prefix=self.prefix)

    def rebuild(self):
        self.world.close()
        shutil.rmtree(self.root, ignore_errors=True)
        shutil.copytree(self.template, self.root, symlinks=True)
        self.start()

    def events_during(self, fn):
        if self.kind == "proc":
            r = fn()
            with open(self.log, "rb") as f:
                f.seek(self.logpos)
                data = f.read()
                self.logpos += len(data)
            ev = []
            for ln in data.decode("utf-8", "surrogateescape").splitlines():
                parts = ln.split("\t")
                if len(parts) >= 2:
                    ev.append((parts[0], parts[1], parts[2] if len(parts) > 2 else ""))
            return r, ev
        self.mon.take()
        self.mon.recording = True
        try:
            r = fn()
        finally:
            self.mon.recording = False
        return r, self.mon.take()

    def close(self):
        try:
            self.world.close()
        finally:
            shutil.rmtree(self.base, ignore_errors=True)


class WsgirefWorld:
    """XandikosApp behind wsgiref.simple_server on a loopback port (raw request lines)."""

    kind = "wsgiref"

    def __init__(self, root, prefix="/"):
        import socket
        from wsgiref.simple_server import WSGIRequestHandler, make_server

        from xandikos.web import XandikosApp, XandikosBackend

        self.prefix = prefix
        backend = XandikosBackend(root)
        backend._mark_as_principal("/user/")
        app = XandikosApp(backend, current_user_principal="/user/")

        class Quiet(WSGIRequestHandler):
            def log_message(self, *a):
                pass

        self.httpd = make_server("127.0.0.1", 0, app, handler_class=Quiet)
        self.port = self.httpd.server_address[1]
        self.thread = threading.Thread(target=self.httpd.serve_forever, kwargs={"poll_interval": 0.01}, daemon=True)
        self.thread.start()

    def request(self, method, target, headers=None, body=b"", raw_target=None):
        import socket

        headers = dict(headers or {})
        t = (raw_target if raw_target is not None else target).encode("utf-8")
        req = method.encode() + b" " + t + b" HTTP/1.1\r\nHost: localhost\r\nConnection: close\r\n"
        for k, v in headers.items():
            req += k.encode() + b": " + v.encode() + b"\r\n"
        req += b"Content-Length: " + str(len(body)).encode() + b"\r\n\r\n" + body
        s = socket.create_connection(("127.0.0.1", self.port), timeout=30)
        try:
            s.sendall(req)
            # xandikos reads wsgi.input to EOF (no Content-Length bound): half-close so wsgiref's socket file ends
            s.shutdown(socket.SHUT_WR)
            chunks = []
            while True:
                d = s.recv(65536)
                if not d:
                    break
                chunks.append(d)
        finally:
            s.close()
        data = b"".join(chunks)
        if not data:
            return http.Resp(0, {}, b"", exc="empty response")
        return http._parse_http_response(data, method)

    def close(self):
        self.httpd.shutdown()
        self.httpd.server_close()
        http.clear_store_caches()


def _worker(args):
    kind, prefix, cases = args
    vios = {}
    stats = {"requests": 0, "status": {}, "events_inside_root": 0, "rebuilds": 0, "classes": set()}

    def vio(what, summary, detail):
        sig = "C13|%s" % what
        e = vios.get(sig)
        if e is None:
            vios[sig] = {"summary": summary, "witness": dict(detail, front=kind, prefix=prefix), "count": 1}
        else:
            e["count"] += 1

    import time as _time
    _t0 = _time.time()
    fr = Front(kind, prefix)
    try:
        before = tree_hash([fr.outer, fr.absd], fr.root)
        for (method, segs) in cases:
            # "@ABS:<name>" spells the absolute file-system path of a decoy (it differs per sandbox)
            abs_first = any(x.startswith("@ABS:") for x in segs[:1])
            segs = tuple((fr.absd if x == "@ABS:absdecoy" else os.path.join(fr.outer, "mid", "sibling") if x == "@ABS:sibling" else fr.outer if x == "@ABS:outer" else x).strip("/") if x.startswith("@ABS:") else x for x in segs)
            path = prefix.rstrip("/") + "/" + "/".join(segs)
            if ":uid-" in method:
                # a file-system path as it would be spelled in a UID: relative traversals as they are, decoys by absolute path
                path = "/".join(segs) if not abs_first else "/" + "/".join(segs).lstrip("/")
            m, target, hdr, body = request_for(method, path, prefix)

            def do():
                if kind == "wsgi":
                    return fr.world.request(m, target, hdr, body)
                return fr.world.request(m, target, hdr, body, raw_target=target)

            try:
                r, events = fr.events_during(do)
            except Exception as e:
                r, events = http.Resp(0, {}, b"", exc="%s: %s" % (type(e).__name__, e)), []
            stats["requests"] += 1
            stats["status"][r.status] = stats["status"].get(r.status, 0) + 1
            classes = "+".join(sorted({seg_class(x) for x in segs})) or "none"
            stats["classes"].add((method, classes, r.status))
            outside = [e for e in events if not (e[1] == fr.root or e[1].startswith(fr.root + os.sep))]
            stats["events_inside_root"] += len(events) - len(outside)
            where = "multiget-href" if method == "REPORT" else "body-uid" if ":uid-" in method else "request-target"
            # $TMPDIR: dulwich writes every commit message to a mkstemp() file there (commit-msg hook plumbing) and removes it
            # again; that one pattern is a known finding of its own, anything else in $TMPDIR is reported like any other place
            tmp_ev = [e for e in outside if e[1].startswith(fr.tmpdir + os.sep) or e[1] == fr.tmpdir]
            if tmp_ev:
                outside = [e for e in outside if e not in tmp_ev]
                byfile = {}
                for e in tmp_ev:
                    byfile.setdefault(e[1], []).append(e[0])
                for pth, kinds_ in byfile.items():
                    bn = os.path.basename(pth)
                    left = os.path.exists(pth)
                    if re.match(r"^[a-z0-9_]{8}$", bn) and set(kinds_) <= {"open", "os.remove"} and not left:
                        continue  # tempfile's own writability probe of $TMPDIR (first use in a process; the file holds the word "blat")
                    if re.match(r"^tmp[a-z0-9_]{8}$", bn) and set(kinds_) <= {"open", "os.remove"} and "os.remove" in kinds_ and not left:
                        vio("scratch-directory:commit-message-temp-file", "%s %s: a file with the commit message (it names the uploaded object) was created in $TMPDIR and removed again" % (method, path), {"method": method, "path": path, "file": bn, "events": kinds_})
                    else:
                        vio("scratch-directory:%s:%s:%s%s" % (method, where, "+".join(sorted(set(kinds_))), ":left-behind" if left else ""), "%s %s made the server %s a file in $TMPDIR (%s)%s" % (method, path, sorted(set(kinds_)), re.sub(r"[a-z0-9_]{8}", "XXXXXXXX", bn), ", still there after the request" if left else ""), {"method": method, "path": path, "status": r.status, "file": bn})
                        if left:
                            try:
                                os.unlink(pth)
                            except OSError:
                                pass
            if outside:
                kinds = sorted({e[0] for e in outside})
                vio("fs-access-outside-root:%s:%s:%s" % (method, where, "+".join(kinds)), "%s %s made the server %s %s" % (method, path, kinds, sorted({e[1].replace(fr.base, "<sandbox>") for e in outside})[:3]), {"method": method, "path": path, "status": r.status, "events": [(e[0], e[1].replace(fr.base, "<sandbox>"), e[2]) for e in outside[:6]]})
            after = tree_hash([fr.outer, fr.absd], fr.root)
            if after != before:
                vio("decoy-tree-modified:%s:%s" % (method, where), "%s %s changed files or directories outside the data directory" % (method, path), {"method": method, "path": path, "status": r.status})
            if CANARY.encode() in r.body:
                vio("decoy-content-served:%s:%s" % (method, where), "%s %s returned the content of a file outside the data directory" % (method, path), {"method": method, "path": path, "status": r.status})
            if after != before or not root_intact(fr.root):
                stats["rebuilds"] += 1
                fr.close()
                fr = Front(kind, prefix)
                before = tree_hash([fr.outer, fr.absd], fr.root)
    finally:
        fr.close()
    stats["classes"] = sorted(stats["classes"], key=repr)
    if os.environ.get("XV_DEBUG"):
        import sys
        sys.stderr.write("c13 job %s %s: %d requests, %d rebuilds, %.1fs\n" % (kind, prefix, stats["requests"], stats["rebuilds"], _time.time() - _t0))
    return vios, stats


def gen_cases(tier):
    maxlen = 2 if tier == "quick" else 3
    seqs = []
    for n in range(1, maxlen + 1):
        seqs.extend(itertools.product(SEGMENTS, repeat=n))
    # traversal-only prefixes up to length 5, then a decoy name
    trav = []
    tl = TRAVERSAL[:4] if tier == "thorough" else TRAVERSAL[:3]
    for n in range(3, 6):
        for t in itertools.product(tl, repeat=n):
            if (tier == "quick" or n == 5) and len(set(t)) > 2:
                continue
            for tail in (("secret.ics",), ("sibling", "member.ics"), ("sibling",), ("root-evil", "secret.ics"), ("newdir",)):
                trav.append(tuple(t) + tail)
    # from inside the calendar: /user/calendars/calendar/<traversal...>/<decoy>
    deep = []
    for n in range(1, 7):
        for tok in TRAVERSAL[:4]:
            for tail in (("secret.ics",), ("sibling", "member.ics"), ("newdir",), ("mid", "sibling", "member.ics")):
                deep.append(("user", "calendars", "calendar") + (tok,) * n + tail)
    # absolute paths of the decoys behind 0-4 extra leading slashes (POSIX normpath keeps exactly two leading slashes)
    absolute = []
    for k in range(0, 5):
        for tail in (("@ABS:absdecoy", "secret.ics"), ("@ABS:absdecoy",), ("@ABS:sibling", "member.ics"), ("@ABS:outer", "secret.ics"), ("@ABS:absdecoy", "newdir")):
            absolute.append(("",) * k + tail)
    for t in TRAVERSAL[:2]:
        absolute.append((t, t, t, "@ABS:absdecoy", "secret.ics"))
    # doubly percent-encoded traversal inside ONE segment (decoded once by the front end, a second time by sloppy code)
    for enc in ("..%252F", "%252e%252e%252f", "..%252f", "%252E%252E%252F"):
        for n in range(1, 7):
            for tail in ("newfile.ics", "secret.ics", "sibling%252Fmember.ics"):
                deep.append(("user", "calendars", "calendar", enc * n + tail))
                if n <= 3:
                    deep.append((enc * n + tail,))
    return seqs, trav + absolute, deep


def gen_uid_cases():
    """Paths spelled in the UID of an uploaded object (literal text: no percent-encoding layer)."""
    out = []
    for n in range(1, 9):
        for tail in (("secret",), ("secret.ics",), ("sibling", "member"), ("sibling", "member.ics"), ("newdir", "x"), ("root-evil", "secret")):
            out.append(("..",) * n + tail)
    for tail in (("@ABS:absdecoy", "secret"), ("@ABS:absdecoy", "secret.ics"), ("@ABS:absdecoy", "new"), ("@ABS:sibling", "member.ics"), ("@ABS:outer", "secret.ics")):
        out.append(tail)
    out += [("..",), (".",), ("", "x"), ("a", "..", "..", "..", "x"), (".git", "config"), ("..", ".git", "HEAD")]
    return out


def run(tier, workers=None):
    rep = Reporter("C13", tier)
    nw = workers or 16
    seqs, trav, deep = gen_cases(tier)
    fronts = [("aio", "/"), ("wsgi", "/dav/")]
    if tier == "thorough":
        fronts += [("proc", "/dav/"), ("wsgiref", "/")]
    jobs = []
    ncases = 0
    for (kind, prefix) in fronts:
        cases = [(m, s) for s in seqs + trav + deep for m in METHODS]
        if kind in ("proc", "wsgiref"):
            # the subprocess / wsgiref fronts take the traversal-focused part only
            cases = [(m, s) for s in trav + deep + [q for q in seqs if any(x in TRAVERSAL for x in q) and len(q) <= 2] for m in METHODS]
        cases += [(m, u) for u in gen_uid_cases() for m in ("POST:uid-ics", "POST:uid-vcf", "PUT:uid-ics")]
        ncases += len(cases)
        k = nw if kind != "proc" else 8
        for i in range(k):
            ch = cases[i::k]
            if ch:
                jobs.append((kind, prefix, ch))
    # absolute decoy path spelled in the URL
    ctx = mp.get_context("fork")
    with ctx.Pool(nw) as pool:
        results = pool.map(_worker, jobs, chunksize=1)
    tot = {"requests": 0, "events_inside_root": 0, "rebuilds": 0}
    status = {}
    classes = set()
    for vios, stats in results:
        rep.merge(vios)
        for k in tot:
            tot[k] += stats[k]
        for st, n in stats["status"].items():
            status[st] = status.get(st, 0) + n
        classes |= {tuple(c) for c in stats["classes"]}
    cov = {
        "evaluations": tot["requests"],
        "distinct_nontrivial": len(classes),
        "rule": "all segment sequences up to length %d over %d segments, traversal-only prefixes of length 3-5 and in-collection traversals of length 1-6, each for 10 methods (REPORT places the path in a multiget href), plus %d paths spelled as the UID of a POSTed / PUT object; distinct non-trivial = distinct (method, segment classes, status) outcomes observed" % (2 if tier == "quick" else 3, len(SEGMENTS), len(gen_uid_cases())),
        "samples": ["MKCOL /user/../../sibling/newdir", "GET /%2e%2e/%2e%2e/secret.ics", "REPORT multiget href /user/calendars/calendar/../../../../sibling/member.ics"],
        "segments": SEGMENTS, "methods": METHODS, "fronts": ["%s@%s" % f for f in fronts],
        "status_histogram": {str(k): v for k, v in sorted(status.items(), key=lambda x: str(x[0]))},
        "fs_events_inside_root_observed": tot["events_inside_root"],
        "worlds_rebuilt_after_destruction": tot["rebuilds"],
        "exhaustive": True,
    }
    if tot["events_inside_root"] == 0:
        rep.harness_error("the audit monitor saw no file-system event at all: monitor not working")
    return rep.finish("exploration", cov, assumptions=[
        "monitors: Python audit events (open, listdir, scandir, mkdir, rmdir, remove, rename, link, symlink, chmod, truncate, utime, shutil.*) with realpath at event time; content hash of the decoy tree around the root; canary strings",
        "stat()-style probes raise no audit event and are not observed",
        "the root is <sandbox>/outer/mid/root with a sibling collection, a prefix-confusable directory and decoy files around it",
    ])
