"""C04 - a crash during a write leaves the old or the new state, never anything else.

E3: every operation x prior contents x store is executed once in a child
process under strace; every prefix of the recorded file-system mutations and
every byte prefix of every write is materialised, re-opened by a fresh store
object and audited.
"""

import json
import multiprocessing as mp
import os
import shutil
import sys

from ..core import bodies as B
from ..core import crash, env, ical, storesys
from ..core.davsys import _run_git
from ..core.report import Reporter

PRIORS = {
    "empty": [],
    "one": [("put", "a.ics", "X")],
    "two": [("put", "a.ics", "X"), ("put", "b.ics", "Z")],
    "after-delete": [("put", "a.ics", "X"), ("put", "b.ics", "Z"), ("delete", "b.ics")],
    "after-replace": [("put", "a.ics", "X"), ("put", "a.ics", "X2"), ("put", "b.ics", "Z")],
}
OPS = {
    "create": ["put", "c.ics", "T"],
    "replace": ["put", "a.ics", "X2"],
    "replace-back": ["put", "a.ics", "X"],
    "replace-changing-uid": ["put", "a.ics", "U2"],
    "delete": ["delete", "a.ics"],
    "noop-rewrite": ["put", "a.ics", "X"],
    "set-displayname": ["set", "displayname", "A name"],
    "set-description": ["set", "description", "A description"],
    "set-color": ["set", "color", "#112233"],
    "set-comment": ["set", "comment", "A comment"],
    "set-type": ["set", "type", "calendar"],
    # the same operations as ONE request each to the WSGI application (git stores; a request must not be split into
    # several separately published steps)
    "http-create": ["http", "PUT", "c.ics", "T", "text/calendar"],
    "http-replace": ["http", "PUT", "a.ics", "X2", "text/calendar"],
    "http-replace-charset": ["http", "PUT", "a.ics", "X2", "text/calendar; charset=utf-8"],
    "http-replace-no-content-type": ["http", "PUT", "a.ics", "X2", None],
    "http-delete": ["http", "DELETE", "a.ics", None, None],
    "http-set-displayname": ["http", "PROPPATCH", "displayname", "A name", None],
    "http-set-color": ["http", "PROPPATCH", "color", "#112233", None],
}
PROPS = ["displayname", "description", "color", "comment", "type"]


def applicable(prior, opname, kind):
    op = OPS[opname]
    if op[0] == "http":
        if kind == "vdir":
            return False  # the web layer opens git stores only
        if op[1] == "PROPPATCH":
            return True
        op = ["put" if op[1] == "PUT" else "delete", op[2]]
    names = set()
    for p in PRIORS[prior]:
        if p[0] == "put":
            names.add(p[1])
        else:
            names.discard(p[1])
    if op[0] in ("put", "delete") and op[1] == "a.ics" and "a.ics" not in names:
        return False
    if opname == "replace" and prior == "after-replace":
        return False
    if opname in ("noop-rewrite", "replace-back"):
        # X over X is the no-op; X over X2 is the replace-back
        last = [p for p in PRIORS[prior] if p[0] == "put" and p[1] == "a.ics"]
        isx = bool(last) and last[-1][2] == "X"
        return isx if opname == "noop-rewrite" else (bool(last) and not isx)
    if kind == "vdir" and opname in ("set-comment", "set-type"):
        return False
    return True


def read_state(kind, path):
    """(members: name -> bytes, props, problems) through a FRESH store object."""
    problems = []
    try:
        st = storesys.open_store(kind, path)
    except Exception as e:
        return None, None, ["collection-does-not-open:%s" % type(e).__name__]
    members = {}
    try:
        listing = list(st.iter_with_etag())
    except Exception as e:
        return None, None, ["listing-fails:%s" % type(e).__name__]
    for (n, ct, et) in listing:
        try:
            data = b"".join(st.get_file(n, ct, et).content)
        except Exception as e:
            problems.append("member-unreadable:%s" % type(e).__name__)
            continue
        members[n] = data
        if storesys.scheme_holds(kind) and storesys.etag_scheme(kind, data) != et:
            problems.append("etag-does-not-match-content")
        if n.endswith(".ics"):
            try:
                ical.parse_calendar(data)
            except Exception:
                problems.append("member-does-not-parse")
    props = {}
    for p in PROPS:
        if kind == "vdir" and p == "type":
            continue  # a vdir has no stored type: get_type() guesses from the members
        try:
            props[p] = getattr(st, "get_" + p)()
        except (NotImplementedError, KeyError):
            props[p] = None
        except Exception as e:
            problems.append("property-unreadable:%s:%s" % (p, type(e).__name__))
            props[p] = "!error"
    return members, props, problems


def http_readback(colldir):
    """Problems a DAV client sees on the recovered collection (served by a fresh application object)."""
    from ..core import dav, http

    out = []
    w = http.WsgiWorld(os.path.dirname(colldir))
    try:
        base = "/" + os.path.basename(colldir) + "/"
        r = w.request("PROPFIND", base, dict(dav.XML_CT, Depth="1"), dav.propfind_body([dav.P_GETETAG, "{DAV:}getcontentlength"]))
        if r.status != 207:
            return ["http-listing-fails:%s" % r.status]
        ms = dav.parse_multistatus(r.body)
        import urllib.parse

        for x in ms.responses:
            tgt = dav.resolve_href(base, x.href or "")  # (hrefs may be absolute URLs or carry more percent-encoding than needed)
            if not x.href or urllib.parse.unquote(tgt).rstrip("/") == base.rstrip("/"):
                continue
            g = w.request("GET", tgt)
            if g.status != 200:
                out.append("http-listed-member-not-served:%s" % g.status)
                continue
            cl = g.headers.get("content-length")
            if cl is not None and int(cl) != len(g.body):
                out.append("http-content-length-differs-from-body:announced %s, sent %d" % (cl, len(g.body)))
            pl = x.prop_text("{DAV:}getcontentlength")
            if pl is not None and int(pl) != len(g.body):
                out.append("http-getcontentlength-differs-from-body:reported %s, body %d" % (pl, len(g.body)))
            if x.prop_text(dav.P_GETETAG) != g.headers.get("etag"):
                out.append("http-etag-views-differ")
    except Exception as e:  # noqa: BLE001
        out.append("http-readback-raises:%s" % type(e).__name__)
    finally:
        w.close()
    return out


def git_health(kind, path, had_commits):
    if kind == "vdir":
        return []
    out = []
    rc, o, e = _run_git(path, "fsck", "--connectivity-only", "--no-dangling")
    if rc != 0:
        msg = (o + e).decode("utf-8", "replace")
        if "missing" in msg or "broken" in msg or "invalid" in msg or "error" in msg:
            out.append("git-fsck:%s" % ("missing-object" if "missing" in msg else "broken-ref" if ("invalid" in msg or "broken" in msg) else "error"))
    if had_commits:
        rc, o, e = _run_git(path, "rev-parse", "--verify", "HEAD^{commit}")
        if rc != 0:
            out.append("HEAD-does-not-resolve")
    return out


def _scenario(args):
    kind, prior, opname, stride = args
    label = "%s/%s/%s" % (kind, prior, opname)
    vios = {}
    stats = {"states": 0, "events": 0, "writes": 0, "old": 0, "new": 0, "conformance": None, "distinct": set()}

    def vio(what, summary, detail):
        sig = "C04|%s|%s|%s" % (kind, opname, what)
        e = vios.get(sig)
        if e is None:
            vios[sig] = {"summary": summary, "witness": dict(detail, store=kind, prior=prior, op=OPS[opname]), "count": 1}
        else:
            e["count"] += 1

    d = env.fresh_dir("c04")
    try:
        path = os.path.join(d, "coll")
        st = storesys.open_store(kind, path, create=True)
        for p in PRIORS[prior]:
            if p[0] == "put":
                st.import_one(p[1], "text/calendar", [B.ALL_BODIES[p[2]]])
            else:
                st.delete_one(p[1])
        if kind in ("tree", "bare"):
            st.set_type("calendar")
        st = None
        pre = os.path.join(d, "pre")
        shutil.copytree(path, pre, symlinks=True)
        pre_members, pre_props, pp = read_state(kind, pre)
        had_commits = kind != "vdir"
        child = os.path.join(os.path.dirname(crash.__file__), "crash_child.py")
        e = dict(os.environ)
        try:
            rc, events, nlines, out, err = crash.record([sys.executable, "-W", "ignore", child, kind, path, json.dumps(OPS[opname])], path, d, env=e)
        except crash.RecorderError as ex:
            return vios, stats, label, "recorder: %s" % ex
        if rc != 0 or b"ACK" not in out:
            return vios, stats, label, "child failed rc=%s: %s" % (rc, err[-400:].decode("utf-8", "replace"))
        stats["events"] = len(events)
        stats["writes"] = sum(1 for ev in events if ev[0] == "write")
        final_digest = crash.tree_digest(path)
        post_members, post_props, pp2 = read_state(kind, path)
        sc = os.path.join(d, "sc")
        os.mkdir(sc)
        last = None
        op = OPS[opname]
        target = op[1] if op[0] in ("put", "delete") else None
        tprop = op[1] if op[0] == "set" else None
        if op[0] == "http":
            target = op[2] if op[1] in ("PUT", "DELETE") else None
            tprop = op[2] if op[1] == "PROPPATCH" else None
        nstates = 0
        for (k, part, cd) in crash.crash_states(events, path, pre, sc, stride=stride):
            nstates += 1
            is_last = part is None and k == len(events)
            where = "after-event-%d-of-%d(%s)" % (k, len(events), events[k - 1][0] + ":" + os.path.relpath(events[k - 1][1], path) if k > 0 and isinstance(events[k - 1][1], str) and events[k - 1][1].startswith(path) else "start") if part is None else "inside-write-%d(%s)" % (k, os.path.relpath(events[k][1], path))
            cls = ("torn-write:" + os.path.basename(events[k][1]).split(".")[-1]) if part is not None else "between-calls"
            members, props, problems = read_state(kind, cd)
            for pr in problems:
                vio(pr.split(":")[0] + ":" + cls.split(":")[0], "%s at crash point %s" % (pr, where), {"crash_point": where, "byte": part})
            if members is not None:
                for n, data in pre_members.items():
                    if n == target:
                        continue
                    if members.get(n) != data:
                        vio("other-member-damaged:" + cls.split(":")[0], "member %s differs from the pre-crash state at %s" % (n, where), {"crash_point": where})
                for n in members:
                    if n != target and n not in pre_members:
                        vio("unexpected-member:" + cls.split(":")[0], "unexpected member %s at %s" % (n, where), {"crash_point": where})
                if target is not None:
                    got = members.get(target)
                    old, new = pre_members.get(target), post_members.get(target)
                    if got == old:
                        stats["old"] += 1
                    elif got == new:
                        stats["new"] += 1
                    else:
                        vio("interrupted-resource-neither-old-nor-new:" + cls.split(":")[0], "%s is neither its previous nor its new content at %s" % (target, where), {"crash_point": where, "got": got})
                    if is_last and got != new:
                        vio("acknowledged-write-lost", "the write was acknowledged (process finished) but the new content is not there", {"crash_point": where})
                for p in PROPS:
                    g = props.get(p)
                    if p == tprop:
                        if g not in (pre_props.get(p), post_props.get(p)):
                            vio("property-neither-old-nor-new:%s:%s" % (p, cls.split(":")[0]), "%s reads %r, old %r, new %r at %s" % (p, g, pre_props.get(p), post_props.get(p), where), {"crash_point": where, "byte": part})
                        if is_last and g != post_props.get(p):
                            vio("acknowledged-property-lost:%s" % p, "acknowledged property change is not there", {})
                    elif g != pre_props.get(p):
                        vio("other-property-changed:%s:%s" % (p, cls.split(":")[0]), "%s changed from %r to %r at %s" % (p, pre_props.get(p), g, where), {"crash_point": where})
                stats["distinct"].add((tuple(sorted((n, hash(v)) for n, v in members.items())), tuple(sorted((k_, str(v)) for k_, v in props.items()))))
            if op[0] == "http" and members is not None:
                # the recovered directory as a client sees it: a fresh application object on a copy's parent directory;
                # every member's GET must announce the length of what it sends, and PROPFIND must report the same length
                for hp in http_readback(cd):
                    vio(hp.split(":")[0] + ":" + cls.split(":")[0], "%s at crash point %s" % (hp, where), {"crash_point": where, "byte": part})
            for gp in git_health(kind, cd, had_commits):
                vio(gp + ":" + cls.split(":")[0], "%s at crash point %s" % (gp, where), {"crash_point": where, "byte": part})
            if is_last:
                stats["conformance"] = crash.tree_digest(cd) == final_digest
            shutil.rmtree(cd, ignore_errors=True)
        stats["states"] = nstates
        if stats["conformance"] is not True:
            return vios, stats, label, "replayer conformance failed: applying all %d events does not reproduce the child's final directory" % len(events)
    except crash.RecorderError as ex:
        return vios, stats, label, "recorder: %s" % ex
    finally:
        shutil.rmtree(d, ignore_errors=True)
    stats["distinct"] = len(stats["distinct"])
    return vios, stats, label, None


def run(tier, workers=None):
    rep = Reporter("C04", tier)
    nw = workers or 16
    stride = 16 if tier == "quick" else 1
    priors = ["one", "two"] if tier == "quick" else list(PRIORS)
    jobs = []
    for kind in ("tree", "bare", "vdir"):
        for prior in priors:
            for opname in OPS:
                if applicable(prior, opname, kind):
                    jobs.append((kind, prior, opname, stride))
    ctx = mp.get_context("fork")
    with ctx.Pool(nw) as pool:
        results = pool.map(_scenario, jobs, chunksize=1)
    tot = {"states": 0, "events": 0, "writes": 0, "old": 0, "new": 0}
    distinct = 0
    per = []
    for vios, stats, label, err in results:
        rep.merge(vios)
        if err:
            rep.harness_error("%s: %s" % (label, err))
        for k in tot:
            tot[k] += stats[k]
        distinct += stats["distinct"] if isinstance(stats["distinct"], int) else len(stats["distinct"])
        per.append({"scenario": label, "crash_states": stats["states"], "events": stats["events"], "writes": stats["writes"], "conformance": stats["conformance"]})
    cov = {
        "evaluations": tot["states"],
        "distinct_nontrivial": distinct,
        "rule": "one evaluation = one crash state (pre-state + k recorded mutations [+ b bytes of write k+1]) recovered by a fresh store and audited; distinct non-trivial = distinct recovered (members, properties) states per scenario, summed",
        "samples": per[:3] + per[-2:],
        "scenarios": len(jobs), "recorded_mutations": tot["events"], "recorded_writes": tot["writes"],
        "states_showing_old_content": tot["old"], "states_showing_new_content": tot["new"],
        "replayer_conformance_all_scenarios": all(p["conformance"] for p in per),
        "byte_stride": stride, "per_scenario": per, "exhaustive": stride == 1,
    }
    return rep.finish("fault_enumeration", cov, assumptions=[
        "process death only: every mutation that was issued is durable (page cache survives); power loss / reordering of unsynced pages is not modelled",
        "crash points: between any two recorded mutating system calls and after every byte of every write (stride %d in this tier)" % stride,
        "the recorder is strace -f -y -xx; a run whose replayed log does not reproduce the child's final directory byte for byte is void (harness error)",
    ])
