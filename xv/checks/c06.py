"""C06 - UIDs are unique within a calendar, and only real conflicts are refused."""

from ..core.davsys import Config
from . import e1common

ASSUME = [
    "UID alphabet: an 89-character UID (its stored line is folded) in two versions and its 70-character prefix; u1 (two summaries), U1 (case), 'u 1' (space), 'u\\\\,1' (escaped comma), u2, an object whose first component is a VTIMEZONE, objects without UID",
    "UID of a resource = unescaped value of the UID line of the first sub-component that has one (independent content-line reader)",
    "one configuration has two workers: a second application object with its own store cache (and so its own uid maps) on the same directory; every write is offered to either worker, both are audited after every request",
    "the store caches (uid maps) are part of the state key, so histories that differ only in cache staleness are distinct states",
]


def configs(tier):
    if tier == "quick":
        names = ("a.ics", "b.ics")
        bods = ("U1a", "U1b", "UC", "U2", "TZ1", "UL1a", "UL1b")
    else:
        names = ("a.ics", "b.ics", "c.ics")
        bods = ("U1a", "U1b", "UC", "USP", "UESC", "U2", "TZ1", "NOUID", "NOUID2", "UL1a", "UL1b", "ULP")
    out = [
        # names whose extension is not lower case (git back ends; a vdir only lists *.ics)
        e1common.StoreCfg(label="store:tree+bare+mem/upper-case-extension", kinds=("tree", "bare", "mem"), names=("A.ICS", "b.ics", "c.Ics"), bodies=bods[:4], oracles={"C06"}, features={"restart"}),
        Config(front="wsgi", backend="tree", prefix="/dav/", names={"cal": ["A.ICS", "b.ics"], "ab": [], "c2": []}, bodies={"cal": list(bods[:4]), "ab": [], "c2": []},
               features={"restart"}, oracles={"C06"}, label="tree/wsgi@/dav/+upper-case-extension"),
        e1common.StoreCfg(kinds=("tree", "bare", "mem", "vdir"), names=names, bodies=bods, oracles={"C06"}, features={"restart", "etagargs"}),
        Config(front="wsgi", backend="tree", prefix="/", names={"cal": list(names[:2]), "ab": [], "c2": []}, bodies={"cal": list(bods[:5]), "ab": [], "c2": []},
               features={"restart", "post", "burst"}, oracles={"C06"}),
    ]
    out.append(Config(front="wsgi", backend="tree" if tier == "quick" else "bare", prefix="/", names={"cal": ["a.ics", "b.ics"], "ab": [], "c2": []}, bodies={"cal": ["U1a", "U1b", "U2"], "ab": [], "c2": []},
                      features={"two-workers"}, oracles={"C06"}, label="%s/wsgi+two-workers" % ("tree" if tier == "quick" else "bare")))
    if tier == "thorough":
        out.append(Config(front="aio", backend="bare", prefix="/dav/", names={"cal": list(names[:2]), "ab": [], "c2": []}, bodies={"cal": list(bods[:6]), "ab": [], "c2": []},
                          features={"restart", "post", "burst"}, oracles={"C06"}))
    return out


def run(tier, workers=None):
    def depth_of(cfg):
        if "upper-case" in cfg.label and tier == "quick":
            return (2, None)
        if isinstance(cfg, e1common.StoreCfg):
            return (3, None) if tier == "quick" else (5, 8000)
        return (3, None) if tier == "quick" else (5, 5000)

    def race_phase(rep):
        """Two writers that bring the same UID under different names (E4, tree store, every schedule with at most one preemption):
        whatever the schedule, the UID must not end up twice."""
        import multiprocessing as mp

        from . import c05

        scen = [("new-c-uid9", "new-d-uid9"), ("new-c-dup-of-a", "del-a"), ("a-takes-uid-of-b", "del-b"), ("new-c-uid9", "put-a-X2")]
        jobs = [("tree", mode, ops, 1, 400) for ops in scen for mode in (("processes",) if tier == "quick" else ("processes", "threads"))]
        with mp.get_context("fork").Pool(min(len(jobs), workers or 16), maxtasksperchild=2) as pool:
            results = pool.map(c05._scenario, jobs, chunksize=1)
        n = 0
        for vios, stats, label, err in results:
            n += stats["executions"]
            if err:
                rep.harness_error("race phase %s: %s" % (label, err))
            for sig, e in vios.items():
                if "|final-state:duplicate-uid|" in sig:
                    rep.violation(sig.replace("C05|", "C06|race|", 1), e["summary"], e["witness"])
        return {"race_phase": {"scenarios": len(jobs), "schedules": n, "preemption_bound": 1}}

    return e1common.run_configs("C06", tier, configs(tier), depth_of, workers=workers, extra=race_phase, assumptions=ASSUME + [
        "race phase: same-UID two-writer scenarios on the tree store, every schedule with at most one preemption (E4); afterwards no UID may be carried by two members (the bare store's unlocked read-modify-write is C05's known finding and is not repeated here)",
    ])
