"""C16 - listings are complete and every href the server emits resolves.

E2 over names x layouts x Depth x route prefixes x front ends.  Every href the
server emits (multistatus bodies of PROPFIND / multiget / query / sync /
PROPPATCH, Location of POST, add-member, current-user-principal,
principal-URL, home sets) is resolved against the request URL (RFC 3986) and
requested exactly as sent; it must address the resource it was emitted for.
"""

import itertools
import multiprocessing as mp
import urllib.parse
import xml.etree.ElementTree as ET

from ..core import bodies as B
from ..core import dav, davsys
from ..core.davsys import Config, DavSys
from ..core.report import Reporter

CHARS = {"space": " ", "percent": "%", "hash": "#", "question": "?", "semicolon": ";", "plus": "+", "e-acute": "é", "kanji": "日",
         # (names that Unicode normalisation would change: a decomposed e-acute, the ANGSTROM SIGN)
         "e-combining-acute": "e\u0301", "angstrom-sign": "\u212b"}


def names(tier):
    out = []
    for cn, ch in CHARS.items():
        out.append(("%s-infix" % cn, "x%sy" % ch))
        out.append(("%s-prefix" % cn, "%sxy" % ch))
        out.append(("%s-suffix" % cn, "xy%s" % ch))
    out.append(("literal-%41", "x%41y"))
    out.append(("literal-%2F", "x%2Fy"))
    out.append(("plain", "plain"))
    if tier == "thorough":
        for (a, ca), (b, cb) in itertools.permutations(CHARS.items(), 2):
            out.append(("pair-%s-%s" % (a, b), "x%s%sy" % (ca, cb)))
    return out


def enc(name):
    return urllib.parse.quote(name, safe="")


PROPS_HREFY = ["{DAV:}current-user-principal", "{DAV:}principal-URL", "{%s}calendar-home-set" % dav.CAL, "{%s}addressbook-home-set" % dav.CARD, "{DAV:}add-member"]


def _worker(args):
    cfg, cases = args
    vios = {}
    stats = {"cases": 0, "hrefs_dereferenced": 0, "names_refused": 0, "listings": 0, "requests": 0, "outcomes": set()}

    def vio(what, summary, detail):
        sig = "C16|%s" % what
        e = vios.get(sig)
        if e is None:
            vios[sig] = {"summary": summary, "witness": dict(detail, config=cfg.label), "count": 1}
        else:
            e["count"] += 1

    s = DavSys(cfg)

    def deref(base_target, href, expect, ctx, nclass):
        """Request an emitted href as sent; expect = ('member', etag, bodyhash) | ('collection', kind-substring)."""
        stats["hrefs_dereferenced"] += 1
        if href is None or href == "":
            vio("empty-href:%s" % ctx, "an href element is empty", {"context": ctx})
            return
        target = dav.resolve_href(base_target, href)
        if expect[0] == "member":
            g = s.req("GET", target)
            ok = g.status == 200 and g.headers.get("etag") == expect[1]
            stats["outcomes"].add((ctx, nclass.split("-")[0], g.status))
            if not ok:
                vio("href-does-not-resolve:%s:%s" % (ctx, nclass), "href %r emitted in %s, requested as sent (%s), answered %s (etag %s, expected %s)" % (href, ctx, target, g.status, g.headers.get("etag"), expect[1]), {"href": href, "target": target, "base": base_target})
        else:
            r = s.req("PROPFIND", target, dict(dav.XML_CT, Depth="0"), dav.propfind_body([dav.P_RESOURCETYPE]))
            rt = None
            if r.status == 207:
                ms = dav.parse_multistatus(r.body)
                if ms.responses and ms.responses[0].status in (None, 200):
                    rt = dav.resourcetypes(ms.responses[0])
            stats["outcomes"].add((ctx, nclass.split("-")[0], r.status))
            if rt is None or not any(expect[1] in t for t in rt):
                vio("href-does-not-resolve:%s:%s" % (ctx, nclass), "href %r emitted in %s, requested as sent (%s), is not a %s (status %s, resourcetype %s)" % (href, ctx, target, expect[1], r.status, sorted(rt) if rt else None), {"href": href, "target": target, "base": base_target})
            if "collection" in expect[1] or expect[1] in ("calendar", "addressbook", "principal"):
                if not href.endswith("/"):
                    vio("collection-href-without-slash:%s" % ctx, "collection href %r does not end in '/'" % href, {"href": href})

    try:
        s.replay([])
        p = cfg.prefix.rstrip("/")
        for (kind, nclass, name) in cases:
            stats["cases"] += 1
            if kind == "member":
                coll_url = s.url("cal")
                url = coll_url + enc(name) + ".ics"
                body = B.ics("c16-%d" % stats["cases"], "name test")
                r = s.req("PUT", url, {"Content-Type": B.CT_ICS}, body)
                if dav.effective_status(r) not in (200, 201, 204):
                    stats["names_refused"] += 1
                    stats["outcomes"].add(("put", nclass, dav.effective_status(r)))
                    continue
                g = s.req("GET", url)
                if g.status != 200:
                    vio("created-member-not-gettable:%s" % nclass, "PUT %s answered 201 but GET of the same URL answers %s" % (url, g.status), {"url": url})
                    continue
                etag = g.headers.get("etag")
                # (a) Depth 1 listing: complete, each once, every href resolves
                r = s.req("PROPFIND", coll_url, dict(dav.XML_CT, Depth="1"), dav.propfind_body([dav.P_GETETAG, dav.P_RESOURCETYPE]))
                stats["listings"] += 1
                ms = dav.parse_multistatus(r.body) if r.status == 207 else None
                if ms is None or ms.parse_error:
                    vio("listing-fails:%s" % nclass, "PROPFIND Depth 1 answered %s with a member named %r" % (r.status, name), {"name": name})
                else:
                    found = [x for x in ms.responses if x.prop_text(dav.P_GETETAG) == etag]
                    if len(found) != 1:
                        vio("member-listed-%d-times:%s" % (len(found), nclass), "member %r appears %d times in the Depth 1 listing" % (name, len(found)), {"name": name, "hrefs": [x.href for x in ms.responses]})
                    else:
                        deref(coll_url, found[0].href, ("member", etag), "propfind-depth1", nclass)
                    selfs = [x for x in ms.responses if dav.resourcetypes(x) and "{DAV:}collection" in dav.resourcetypes(x)]
                    if len(selfs) != 1:
                        vio("depth1-collection-count:%d" % len(selfs), "Depth 1 on a calendar lists %d collections" % len(selfs), {"name": name})
                    else:
                        deref(coll_url, selfs[0].href, ("collection", "calendar"), "propfind-depth1-self", "plain")
                # Depth 0 on the collection: exactly the addressed resource, although it has a member
                r = s.req("PROPFIND", coll_url, dict(dav.XML_CT, Depth="0"), dav.propfind_body([dav.P_GETETAG, dav.P_RESOURCETYPE]))
                ms = dav.parse_multistatus(r.body) if r.status == 207 else None
                if ms is None or ms.parse_error or len(ms.responses) != 1:
                    vio("depth0-on-collection-not-single", "PROPFIND Depth 0 on a collection with one member gave %s responses (status %s)" % (len(ms.responses) if ms and not ms.parse_error else None, r.status), {"name": name})
                # (b) Depth 0 on the member
                r = s.req("PROPFIND", url, dict(dav.XML_CT, Depth="0"), dav.propfind_body([dav.P_GETETAG]))
                ms = dav.parse_multistatus(r.body) if r.status == 207 else None
                if ms is None or ms.parse_error or len(ms.responses) != 1:
                    vio("depth0-not-single:%s" % nclass, "PROPFIND Depth 0 on a member gave %s responses (status %s)" % (len(ms.responses) if ms else None, r.status), {"name": name})
                else:
                    deref(url, ms.responses[0].href, ("member", etag), "propfind-depth0", nclass)
                # (c) multiget, (d) calendar-query, (e) sync-collection
                for ctx, body_ in (("multiget", dav.multiget_body("calendar", [url], [dav.P_GETETAG])),
                                   ("calendar-query", dav.calquery_body(dav.ALL_VCALENDAR, [dav.P_GETETAG])),
                                   ("sync-collection", dav.sync_body("", [dav.P_GETETAG]))):
                    r = s.req("REPORT", coll_url, dict(dav.XML_CT, Depth="1"), body_)
                    ms = dav.parse_multistatus(r.body) if r.status == 207 else None
                    if ms is None or ms.parse_error:
                        vio("report-fails:%s:%s" % (ctx, nclass), "%s answered %s with a member named %r" % (ctx, r.status, name), {"name": name})
                        continue
                    found = [x for x in ms.responses if x.prop_text(dav.P_GETETAG) == etag]
                    if len(found) != 1:
                        vio("member-in-report-%d-times:%s:%s" % (len(found), ctx, nclass), "member %r appears %d times in %s" % (name, len(found), ctx), {"name": name, "hrefs": [x.href for x in ms.responses]})
                    else:
                        deref(coll_url, found[0].href, ("member", etag), ctx, nclass)
                s.req("DELETE", url)
            elif kind == "collection":
                parent, method = name[0], name[1]
                cname = name[2]
                parent_url = p + parent
                url = parent_url + enc(cname) + "/"
                r = s.req(method, url)
                if dav.effective_status(r) != 201:
                    stats["names_refused"] += 1
                    stats["outcomes"].add((method, nclass, dav.effective_status(r)))
                    continue
                want = "calendar" if method == "MKCALENDAR" else "collection"
                r0 = s.req("PROPFIND", url, dict(dav.XML_CT, Depth="0"), dav.propfind_body([dav.P_RESOURCETYPE]))
                ms = dav.parse_multistatus(r0.body) if r0.status == 207 else None
                if ms is None or ms.parse_error or len(ms.responses) != 1 or ms.responses[0].status not in (None, 200):
                    vio("created-collection-not-addressable:%s:%s" % (method, nclass), "%s %s answered 201 but PROPFIND of the same URL fails (%s)" % (method, url, r0.status), {"url": url})
                else:
                    deref(url, ms.responses[0].href, ("collection", want), "propfind-depth0-collection", nclass)
                # the parent's Depth 1 listing contains it exactly once and the href resolves
                r1 = s.req("PROPFIND", parent_url, dict(dav.XML_CT, Depth="1"), dav.propfind_body([dav.P_RESOURCETYPE, dav.P_DISPLAYNAME]))
                stats["listings"] += 1
                ms = dav.parse_multistatus(r1.body) if r1.status == 207 else None
                if ms is None or ms.parse_error:
                    vio("listing-fails:%s" % nclass, "PROPFIND Depth 1 on the parent answered %s" % r1.status, {"name": cname})
                else:
                    norm = lambda h: urllib.parse.unquote(dav.resolve_href(parent_url, h or "")).rstrip("/")
                    found = [x for x in ms.responses if norm(x.href) == urllib.parse.unquote(url).rstrip("/")]
                    if len(found) != 1:
                        vio("collection-listed-%d-times:%s:%s" % (len(found), method, nclass), "new collection %r appears %d times in its parent's Depth 1 listing" % (cname, len(found)), {"hrefs": [x.href for x in ms.responses], "url": url})
                    else:
                        deref(parent_url, found[0].href, ("collection", want), "propfind-depth1-subcollection", nclass)
                    hrefs = [x.href for x in ms.responses]
                    if len(hrefs) != len(set(hrefs)):
                        vio("listing-duplicate-hrefs", "duplicate hrefs in a Depth 1 listing", {"hrefs": hrefs})
                # a member inside it, POST add-member Location
                if method == "MKCALENDAR":
                    body = B.ics("c16-post-%d" % stats["cases"], "posted")
                    rp = s.req("POST", url, {"Content-Type": B.CT_ICS}, body)
                    loc = rp.headers.get("location")
                    if rp.status in (200, 201) and loc:
                        tgt = dav.resolve_href(url, loc)
                        g = s.req("GET", tgt)
                        stats["hrefs_dereferenced"] += 1
                        if g.status != 200 or b"posted" not in g.body:
                            vio("location-does-not-resolve:%s" % nclass, "Location %r of POST add-member, requested as sent, answers %s" % (loc, g.status), {"location": loc, "collection": url})
                    elif rp.status in (200, 201):
                        vio("post-without-location", "POST add-member acknowledged without Location", {"collection": url})
                    # add-member property
                    ra = s.req("PROPFIND", url, dict(dav.XML_CT, Depth="0"), dav.propfind_body(["{DAV:}add-member"]))
                    ms = dav.parse_multistatus(ra.body) if ra.status == 207 else None
                    if ms and ms.responses:
                        el = ms.responses[0].prop_el("{DAV:}add-member")
                        if el is not None:
                            for h in el.iter("{DAV:}href"):
                                deref(url, h.text, ("collection", "calendar"), "add-member", nclass)
                    # PROPPATCH answer href
                    rpp = s.req("PROPPATCH", url, dav.XML_CT, dav.proppatch_body(sets=[(dav.P_DISPLAYNAME, "n")]))
                    ms = dav.parse_multistatus(rpp.body) if rpp.status == 207 else None
                    if ms and ms.responses:
                        deref(url, ms.responses[0].href, ("collection", "calendar"), "proppatch-response", nclass)
                s.req("DELETE", url)
            elif kind == "kind":
                # every kind of collection that MKCOL / MKCALENDAR can make: with one member and one nested collection in it,
                # Depth 1 lists exactly itself, the member and the nested collection, and each of those hrefs resolves
                ckind = name
                url = p + "/user/calendars/kind-%s/" % ckind
                if ckind == "mkcalendar":
                    rc = s.req("MKCALENDAR", url)
                elif ckind == "plain":
                    rc = s.req("MKCOL", url)
                else:
                    rts = {"calendar": ["{DAV:}collection", "{%s}calendar" % dav.CAL], "addressbook": ["{DAV:}collection", "{%s}addressbook" % dav.CARD],
                           "subscription": ["{DAV:}collection", "{http://calendarserver.org/ns/}subscribed"], "schedule-inbox": ["{DAV:}collection", "{%s}schedule-inbox" % dav.CAL]}[ckind]
                    rc = s.req("MKCOL", url, dav.XML_CT, dav.mkcol_body(resourcetypes=rts))
                stats["outcomes"].add(("mk-kind", ckind, rc.status))
                if rc.status != 201:
                    continue
                isab = ckind == "addressbook"
                mname = "m.vcf" if isab else "m.ics"
                rm = s.req("PUT", url + mname, {"Content-Type": B.CT_VCF if isab else B.CT_ICS}, B.CARD_BODIES["K"] if isab else B.ics("c16-kind-%s" % ckind, "kind test"))
                rn = s.req("MKCOL", url + "nested/")
                want = {url.rstrip("/")}
                if dav.effective_status(rm) in (200, 201, 204):
                    want.add(url + mname)
                if rn.status == 201:
                    want.add(url + "nested")
                r = s.req("PROPFIND", url, dict(dav.XML_CT, Depth="1"), dav.propfind_body([dav.P_GETETAG, dav.P_RESOURCETYPE]))
                stats["listings"] += 1
                ms = dav.parse_multistatus(r.body) if r.status == 207 else None
                if ms is None or ms.parse_error:
                    vio("listing-fails:kind-%s" % ckind, "PROPFIND Depth 1 on a %s collection answered %s" % (ckind, r.status), {"url": url})
                else:
                    got = {urllib.parse.unquote(dav.resolve_href(url, x.href or "")).rstrip("/") for x in ms.responses}
                    if got != want:
                        vio("listing-incomplete:kind-%s" % ckind, "Depth 1 listing of a %s collection shows %s, its contents are %s" % (ckind, sorted(got), sorted(want)), {"url": url})
                    for x in ms.responses:
                        t = urllib.parse.unquote(dav.resolve_href(url, x.href or "")).rstrip("/")
                        if t == url + mname:
                            g = s.req("GET", dav.resolve_href(url, x.href))
                            stats["hrefs_dereferenced"] += 1
                            if g.status != 200:
                                vio("href-does-not-resolve:kind-%s" % ckind, "member href %r of a %s collection answers %s" % (x.href, ckind, g.status), {"href": x.href})
                        elif t == url + "nested":
                            deref(url, x.href, ("collection", "collection"), "propfind-depth1-nested", "kind-" + ckind)
                r0 = s.req("PROPFIND", url, dict(dav.XML_CT, Depth="0"), dav.propfind_body([dav.P_RESOURCETYPE]))
                ms0 = dav.parse_multistatus(r0.body) if r0.status == 207 else None
                if ms0 is None or ms0.parse_error or len(ms0.responses) != 1:
                    vio("depth0-on-collection-not-single:kind-%s" % ckind, "PROPFIND Depth 0 on a %s collection gave %s responses" % (ckind, len(ms0.responses) if ms0 and not ms0.parse_error else None), {"url": url})
                s.req("DELETE", url)
            elif kind == "discovery":
                # href-valued properties on root, principal and home sets
                for path in ("/", "/user/", "/user/calendars/", "/user/calendars/calendar/"):
                    base = p + path
                    r = s.req("PROPFIND", base, dict(dav.XML_CT, Depth="0"), dav.propfind_body(PROPS_HREFY))
                    ms = dav.parse_multistatus(r.body) if r.status == 207 else None
                    if ms is None or ms.parse_error or not ms.responses:
                        continue
                    x = ms.responses[0]
                    for tag, want in (("{DAV:}current-user-principal", "principal"), ("{DAV:}principal-URL", "principal"), ("{%s}calendar-home-set" % dav.CAL, "collection"),
                                      ("{%s}addressbook-home-set" % dav.CARD, "collection"), ("{DAV:}add-member", "collection")):
                        el = x.prop_el(tag)
                        if el is None:
                            continue
                        for h in el.iter("{DAV:}href"):
                            deref(base, h.text, ("collection", want), "property:%s@%s" % (tag.split("}")[1], path), "plain")
                # error answers: 404 PROPFIND / PROPPATCH of a missing resource carry an href too
                base = p + "/user/calendars/missing/"
                r = s.req("PROPFIND", base, dict(dav.XML_CT, Depth="0"), dav.propfind_body([dav.P_GETETAG]))
                ms = dav.parse_multistatus(r.body) if r.status == 207 else None
                if ms and ms.responses:
                    h = ms.responses[0].href
                    tgt = dav.resolve_href(base, h or "")
                    if urllib.parse.unquote(tgt).rstrip("/") != urllib.parse.unquote(base).rstrip("/"):
                        vio("error-response-href-not-request-url:propfind-404", "the 404 response for %s carries href %r, which resolves to %s" % (base, h, tgt), {"href": h})
        stats["requests"] = s.nreq
    finally:
        s.close()
    stats["outcomes"] = sorted(stats["outcomes"], key=repr)
    return vios, stats


def run(tier, workers=None):
    rep = Reporter("C16", tier)
    nw = workers or 16
    nm = names(tier)
    cfgs = [Config(front="wsgi", backend="tree", prefix="/dav/", names={"cal": [], "ab": [], "c2": []}, features=set()),
            Config(front="aio", backend="tree", prefix="/", names={"cal": [], "ab": [], "c2": []}, features=set())]
    if tier == "thorough":
        cfgs += [Config(front="aio", backend="tree", prefix="/a/b/", names={"cal": [], "ab": [], "c2": []}, features=set()),
                 Config(front="wsgi", backend="tree", prefix="/", names={"cal": [], "ab": [], "c2": []}, features=set()),
                 Config(front="proc", backend="tree", prefix="/dav/", names={"cal": [], "ab": [], "c2": []}, features=set())]
    cases = [("member", c, n) for (c, n) in nm]
    layouts = [("/user/calendars/", "MKCALENDAR"), ("/user/calendars/", "MKCOL"), ("/user/calendars/calendar/", "MKCALENDAR"), ("/user/contacts/", "MKCOL")]
    cn = nm if tier == "thorough" else [x for x in nm if not x[0].startswith("pair")]
    for (c, n) in cn:
        for (parent, method) in layouts:
            if tier == "quick" and (parent, method) not in layouts[:2] and not c.endswith("infix"):
                continue
            cases.append(("collection", c, (parent, method, n)))
    cases.append(("discovery", "plain", None))
    for ck in ("plain", "mkcalendar", "calendar", "addressbook", "subscription", "schedule-inbox"):
        cases.append(("kind", "kind", ck))
    jobs = []
    for cfg in cfgs:
        k = nw if cfg.front != "proc" else 4
        for i in range(k):
            ch = cases[i::k]
            if ch:
                jobs.append((cfg, ch))
    ctx = mp.get_context("fork")
    with ctx.Pool(nw) as pool:
        results = pool.map(_worker, jobs, chunksize=1)
    tot = {"cases": 0, "hrefs_dereferenced": 0, "names_refused": 0, "listings": 0, "requests": 0}
    outcomes = set()
    for vios, stats in results:
        rep.merge(vios)
        for k in tot:
            tot[k] += stats[k]
        outcomes |= {tuple(o) for o in stats["outcomes"]}
    cov = {
        "evaluations": tot["hrefs_dereferenced"],
        "distinct_nontrivial": len(outcomes),
        "rule": "one evaluation = one emitted href requested as sent; distinct non-trivial = distinct (context, character class, status) outcomes",
        "samples": [{"name": n, "class": c, "url": "/user/calendars/calendar/" + enc(n) + ".ics"} for (c, n) in nm[:6]],
        "cases": tot["cases"], "names": len(nm), "names_refused_by_server": tot["names_refused"], "listings_checked": tot["listings"],
        "layouts": ["%s %s" % l for l in layouts], "configs": [c.label for c in cfgs], "requests_executed": tot["requests"], "exhaustive": True,
    }
    from . import sizes

    cov.update(sizes.run_sweep(rep, "C16", ['listing']))
    return rep.finish("exploration", cov, assumptions=[
        "size sweep: the collection is grown member by member to 140 and the same view is checked at every size up to 8 and around 16, 32, 64, 100 and 128",
        "an emitted href is resolved against the request URL as RFC 3986 says (urljoin) and sent byte-for-byte as the request target; through WSGI the path is percent-decoded once into PATH_INFO as a WSGI server does",
        "':' in names is outside the property's character set and is not generated",
        "names the server refuses (non-success PUT/MKCOL) are counted, not judged",
    ])
