"""C02 - ETags are strong validators and agree across every view of a resource."""

from ..core.davsys import Config
from . import e1common

ASSUME = [
    "views compared: PUT response, GET, HEAD, PROPFIND Depth 0 and Depth 1, multiget, calendar-/addressbook-query, sync-collection (empty token)",
    "index threshold 0 so that the query view also runs through the index path; bodies X/X2 differ in one byte, XR is X with properties reordered",
    "git etag oracle: sha1('blob <len>\\0' + served bytes), computed by the harness",
    "vdir etags (md5) are checked by the store-level driver of C03/C06; the web layer cannot open vdir stores",
]


def configs(tier):
    feats = {"views", "head", "restart", "post"}
    bodies = {"cal": ["X", "X2", "XR", "ZE"], "ab": ["KE", "K2"], "c2": []}  # ZE / KE: characters outside the Basic Multilingual Plane
    props = {"cal": {"displayname": ["d1"]}}
    out = [
        Config(front="wsgi", backend="tree", prefix="/", threshold=0, features=feats, bodies=bodies, props=props, oracles={"C02"}),
        Config(front="aio", backend="bare", prefix="/dav/", threshold=0, features=feats, bodies=bodies, props=props, oracles={"C02"}),
    ]
    # a name containing a literal "%41" next to the name it would decode to: no view may confuse the two
    out.append(Config(front="wsgi", backend="tree", prefix="/dav/", threshold=0, features={"views", "head"}, names={"cal": ["ev%41.ics", "evA.ics"], "ab": [], "c2": []},
                      bodies={"cal": ["X", "Z"], "ab": [], "c2": []}, oracles={"C02"}, label="tree/wsgi@/dav/+percent-names"))
    # members that were uploaded under a media type the server does not validate (no Content-Type at all, octet-stream):
    # stored byte for byte under a .ics name; every view must still serve the same bytes under the same ETag
    out.append(Config(front="wsgi", backend="tree", prefix="/", threshold=0, features={"views", "head"}, names={"cal": ["a.ics", "b.ics"], "ab": [], "c2": []},
                      bodies={"cal": ["X", "XRAW", "XRAW2"], "ab": [], "c2": []}, ct_for={"XRAW": "application/octet-stream", "XRAW2": "(none)"}, oracles={"C02"}, label="tree/wsgi+raw-uploads"))
    # a collection nested in the calendar (with a member named like a top-level one) and Depth: infinity views
    out.append(Config(front="wsgi", backend="tree", prefix="/dav/", threshold=0, features={"views", "nested"}, names={"cal": ["a.ics", "b.ics"], "ab": [], "c2": []},
                      bodies={"cal": ["X", "X2"], "ab": [], "c2": []}, oracles={"C02"}, label="tree/wsgi@/dav/+nested+depth-infinity"))
    if tier == "thorough":
        out += [
            Config(front="aio", backend="tree", prefix="/a/b/", threshold=0, features=feats, bodies=bodies, props=props, oracles={"C02"}),
            Config(front="wsgi", backend="bare", prefix="/", threshold=None, features=feats, bodies=bodies, props=props, oracles={"C02"}),
        ]
    return out


def run(tier, workers=None):
    def seeds(cfg):
        # start from states with an etag history too (A -> B, so that a transition back to A is one step away)
        return [[("put", "cal", "a.ics", "X"), ("put", "cal", "a.ics", "X2")], [("put", "cal", "a.ics", "X"), ("delete", "cal", "a.ics")]]

    def depth_of(cfg):
        return (2, None) if tier == "quick" else (4, 3000)

    def post(rep, obs):
        n = e1common.cross_history_etag(rep, "C02", obs)
        return {"distinct_etags_observed": n}

    faults = {
        # the fault phase runs on the core configurations (the special-purpose ones share the same write path)
        "configs": [c for c in configs(tier) if "+" not in getattr(c, "label", "") or c.label.endswith("+cfgmeta")],
        "histories": [[("put", "cal", "a.ics", "X")], [("put", "cal", "a.ics", "X"), ("put", "cal", "a.ics", "X2")]],
        "ops": [("put", "cal", "a.ics", "X2"), ("put", "cal", "a.ics", "Z"), ("delete", "cal", "a.ics")],
    }
    def overlap(rep):
        """E5: a write handled at every suspension point of a read; the read must not pair an ETag with another version's body."""
        import multiprocessing as mp

        from . import c05

        jobs = [(r, w) for r in ("get-a", "multiget-a-b") for w in ("put-a-other", "delete-a", "put-b")]
        with mp.get_context("fork").Pool(len(jobs)) as pool:
            results = pool.map(c05._http_overlap_job, jobs, chunksize=1)
        n = 0
        for vios, stats in results:
            n += stats["cases"]
            for sig, e in vios.items():
                if "etag-and-data-of-different-versions" in sig:
                    rep.violation(sig.replace("C05|http-overlap", "C02|read-overlapping-write", 1), e["summary"], e["witness"])
        return {"read_overlap_phase": {"pairs": len(jobs), "placements": n}}

    return e1common.run_configs("C02", tier, configs(tier), depth_of, workers=workers, seeds=seeds, extra=overlap, assumptions=ASSUME + [
        "overlap phase (E5): a write handled at every suspension point of GET / multiget in the single-process server",
        "fault phase: every single placement of an ENOSPC failure on a mutating file-system call of a replace / delete; afterwards all views must still agree and ETag <-> bytes must still be a bijection",
    ], post=post, faults=faults)
