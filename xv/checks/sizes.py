"""Size sweep: the same listing / query / multiget on a collection that grows member by member.

Internal batch sizes, cache capacities and counters are invisible in the request alphabet; what they have in common is
that they show at a particular NUMBER of members.  A collection is grown one member at a time up to N and, at every size
of a fixed list (all sizes up to 8, then around 16, 32, 64, 100, 128 and N), the views of one property are compared with
what was uploaded.  Run in a pool worker (it starts a server).
"""

import posixpath
import urllib.parse

from ..core import bodies as B
from ..core import dav
from ..core.davsys import Config, DavSys

SIZES = sorted(set(list(range(1, 9)) + [15, 16, 17, 31, 32, 33, 34, 63, 64, 65, 66, 99, 100, 101, 127, 128, 129, 130, 140]))


def _names(ms, base):
    out = []
    for x in ms.responses:
        t = urllib.parse.unquote(dav.resolve_href(base, x.href or ""))
        if t.rstrip("/") == urllib.parse.unquote(base).rstrip("/"):
            continue
        out.append(posixpath.basename(t))
    return out


def sweep(args):
    """args = (property id, kind) with kind in addressbook-query | calendar-query | listing | multiget | sync."""
    prop, kind = args
    vios = {}
    stats = {"sizes": 0, "requests": 0, "max": 0}

    def vio(what, summary, detail):
        sig = "%s|size-sweep|%s" % (prop, what)
        e = vios.get(sig)
        if e is None:
            vios[sig] = {"summary": summary, "witness": detail, "count": 1}
        else:
            e["count"] += 1

    cfg = Config(front="wsgi", backend="tree", prefix="/", names={"cal": [], "ab": [], "c2": []}, features=set())
    s = DavSys(cfg)
    try:
        s.replay([])
        card = kind == "addressbook-query"
        coll = "ab" if card else "cal"
        base = s.url(coll)
        members = []
        token = None
        for n in range(1, SIZES[-1] + 1):
            nm = "m%03d.%s" % (n, "vcf" if card else "ics")
            if card:
                body = B.vcf("sweep-%d" % n, "Card %d" % n, extra="EMAIL:x%d@example.com" % (n % 3))
            else:
                body = B.ics("sweep-%d" % n, "Event %d" % n, comp="VTODO" if n % 3 == 0 else "VEVENT")
            r = s.req("PUT", base + nm, {"Content-Type": B.CT_VCF if card else B.CT_ICS}, body)
            if dav.effective_status(r) not in (200, 201, 204):
                vio("member-refused", "member %d of the sweep was refused (%s)" % (n, dav.effective_status(r)), {"n": n})
                break
            members.append(nm)
            if n not in SIZES:
                continue
            stats["sizes"] += 1
            stats["max"] = n
            checks = []
            if kind == "addressbook-query":
                checks = [("all", R_pf("FN", "Card", "contains"), set(members)), ("every-third", R_pf("EMAIL", "x0@", "starts-with"), {m for i, m in enumerate(members, 1) if i % 3 == 0}),
                          ("none", R_pf("FN", "zzz", "contains"), set())]
                for (label, fxml, want) in checks:
                    for limit in (None, n + 5):
                        rq = s.req("REPORT", base, dict(dav.XML_CT, Depth="1"), dav.abquery_body(fxml, [dav.P_GETETAG], limit=limit))
                        got = _names(dav.parse_multistatus(rq.body), base) if rq.status == 207 else None
                        if got is None or set(got) != want or len(got) != len(set(got)):
                            vio("addressbook-query:%s%s:wrong-members" % (label, ":generous-limit" if limit else ""), "with %d cards the query '%s' returns %s members, %d match (missing %s)" % (n, label, None if got is None else len(got), len(want), sorted(want - set(got or []))[:3]), {"n": n, "filter": label})
            elif kind == "calendar-query":
                for (label, comp, want) in (("vevent", "VEVENT", {m for i, m in enumerate(members, 1) if i % 3 != 0}), ("vtodo", "VTODO", {m for i, m in enumerate(members, 1) if i % 3 == 0}), ("vjournal", "VJOURNAL", set())):
                    flt = '<C:comp-filter name="VCALENDAR"><C:comp-filter name="%s"/></C:comp-filter>' % comp
                    rq = s.req("REPORT", base, dict(dav.XML_CT, Depth="1"), dav.calquery_body(flt, [dav.P_GETETAG]))
                    got = _names(dav.parse_multistatus(rq.body), base) if rq.status == 207 else None
                    if got is None or set(got) != want or len(got) != len(set(got)):
                        vio("calendar-query:%s:wrong-members" % label, "with %d objects the %s query returns %s members, %d match (missing %s)" % (n, comp, None if got is None else len(got), len(want), sorted(want - set(got or []))[:3]), {"n": n, "filter": label})
            elif kind == "listing":
                for depth in ("1",):
                    rq = s.req("PROPFIND", base, dict(dav.XML_CT, Depth=depth), dav.propfind_body([dav.P_GETETAG]))
                    got = _names(dav.parse_multistatus(rq.body), base) if rq.status == 207 else None
                    if got is None or sorted(got) != sorted(members):
                        vio("listing:wrong-members", "with %d members the Depth 1 listing shows %s (missing %s, repeated %s)" % (n, None if got is None else len(got), sorted(set(members) - set(got or []))[:3], sorted({g for g in (got or []) if (got or []).count(g) > 1})[:3]), {"n": n})
            elif kind == "multiget":
                rq = s.req("REPORT", base, dict(dav.XML_CT, Depth="1"), dav.multiget_body("calendar", [base + m for m in members], [dav.P_GETETAG]))
                ms = dav.parse_multistatus(rq.body) if rq.status == 207 else None
                got = [posixpath.basename(urllib.parse.unquote(dav.resolve_href(base, x.href or ""))) for x in ms.responses if x.status in (None, 200)] if ms else None
                if got is None or sorted(got) != sorted(members):
                    vio("multiget:wrong-members", "a multiget of all %d members answers %s of them with data (missing %s)" % (n, None if got is None else len(got), sorted(set(members) - set(got or []))[:3]), {"n": n})
            elif kind == "sync":
                rq = s.req("REPORT", base, dict(dav.XML_CT, Depth="1"), dav.sync_body("", [dav.P_GETETAG]))
                ms = dav.parse_multistatus(rq.body) if rq.status == 207 else None
                got = _names(ms, base) if ms else None
                if got is None or sorted(got) != sorted(members):
                    vio("sync:initial:wrong-members", "with %d members the initial sync lists %s (missing %s)" % (n, None if got is None else len(got), sorted(set(members) - set(got or []))[:3]), {"n": n})
                if token is not None and ms is not None:
                    rq2 = s.req("REPORT", base, dict(dav.XML_CT, Depth="1"), dav.sync_body(token[0], [dav.P_GETETAG]))
                    ms2 = dav.parse_multistatus(rq2.body) if rq2.status == 207 else None
                    got2 = _names(ms2, base) if ms2 else None
                    want2 = members[token[1]:]
                    if got2 is None or sorted(got2) != sorted(want2):
                        vio("sync:incremental:wrong-members", "from the token taken at %d members the report at %d members lists %s changes, %d were added (missing %s)" % (token[1], n, None if got2 is None else len(got2), len(want2), sorted(set(want2) - set(got2 or []))[:3]), {"n": n, "since": token[1]})
                if ms is not None:
                    token = (ms.sync_token, n)
        stats["requests"] = s.nreq
    finally:
        s.close()
    return vios, stats


def R_pf(name, needle, mt):
    return '<C:filter><C:prop-filter name="%s"><C:text-match match-type="%s">%s</C:text-match></C:prop-filter></C:filter>' % (name, mt, needle)


def run_sweep(rep, prop, kinds):
    """Run the sweeps of one check in pool workers; merge into the reporter; returns coverage."""
    import multiprocessing as mp

    jobs = [(prop, k) for k in kinds]
    with mp.get_context("fork").Pool(len(jobs)) as pool:
        results = pool.map(sweep, jobs, chunksize=1)
    cov = {}
    for (p_, k), (vios, stats) in zip(jobs, results):
        rep.merge(vios)
        cov[k] = {"sizes_checked": stats["sizes"], "largest": stats["max"], "requests": stats["requests"]}
        if stats["sizes"] == 0:
            rep.harness_error("size sweep %s checked nothing" % k)
    return {"size_sweep": cov, "size_sweep_sizes": SIZES}
