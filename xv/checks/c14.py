"""C14 - only well-formed data is stored, and stored data is a fixed point of upload.

E2: every combination of 10 iCalendar feature toggles (2^10 bodies) and 6 vCard
toggles (2^6), plus the invalid classes (empty, arbitrary text, truncation at
every line boundary, forbidden control characters in each TEXT property, card
without BEGIN/END, BEGIN without END), each uploaded to the real server.
"""

import itertools
import multiprocessing as mp
import os

from ..core import bodies as B
from ..core import dav, davsys, ical
from ..core.davsys import Config, DavSys, _run_git
from ..core.report import Reporter

ICS_TOGGLES = ["lf", "folded", "escapes", "quoted-param", "non-ascii", "vtimezone", "valarm", "rrule-exdate", "override", "date"]
VCF_TOGGLES = ["lf", "folded", "escapes", "non-ascii", "param", "multi-email"]


def fold(line, width=75):
    out = []
    b = line
    while len(b.encode("utf-8")) > width:
        # fold on a character boundary
        cut = width
        while len(b[:cut].encode("utf-8")) > width:
            cut -= 1
        out.append(b[:cut])
        b = " " + b[cut:]
    out.append(b)
    return out


def make_ics(idx, feats):
    f = set(feats)
    uid = "c14-%d" % idx
    lines = ["BEGIN:VCALENDAR", "VERSION:2.0", "PRODID:-//xv//C14//EN"]
    if "vtimezone" in f:
        lines += B.TZ_BLOCK.split("\r\n")
    ev = ["BEGIN:VEVENT", "UID:" + uid, "DTSTAMP:20200101T000000Z"]
    if "date" in f:
        ev += ["DTSTART;VALUE=DATE:20200110", "DTEND;VALUE=DATE:20200111"]
    elif "vtimezone" in f:
        ev += ["DTSTART;TZID=Europe/Paris:20200110T100000", "DTEND;TZID=Europe/Paris:20200110T110000"]
    else:
        ev += ["DTSTART:20200110T100000Z", "DTEND:20200110T110000Z"]
    ev.append("SUMMARY:" + ("a\\, b\\; c\\\\ d\\ne" if "escapes" in f else "plain summary"))
    if "folded" in f:
        ev += fold("DESCRIPTION:" + "long text " * 14)
    if "quoted-param" in f:
        ev.append('ATTENDEE;CN="Doe, Jo";ROLE=REQ-PARTICIPANT:mailto:jo@example.com')
        # the same property on a second line, sorting BEFORE the first one (the order of repeated properties is the client's)
        ev.append("ATTENDEE;CN=Al:mailto:al@example.com")
    if "non-ascii" in f:
        ev.append("LOCATION:Zürich 日本 \U0001F600 \U00020000")
    if "rrule-exdate" in f:
        ev.append("RRULE:FREQ=WEEKLY;COUNT=5")
        if "date" in f:
            ev += ["EXDATE;VALUE=DATE:20200124", "EXDATE;VALUE=DATE:20200117"]
        elif "vtimezone" in f:
            ev += ["EXDATE;TZID=Europe/Paris:20200131T100000", "EXDATE;TZID=Europe/Paris:20200117T100000"]
        else:
            ev += ["EXDATE:20200131T100000Z", "EXDATE:20200117T100000Z"]
    if "valarm" in f:
        ev += ["BEGIN:VALARM", "ACTION:DISPLAY", "DESCRIPTION:ring", "TRIGGER:-PT15M", "END:VALARM"]
    ev.append("END:VEVENT")
    lines += ev
    if "override" in f:
        ov = ["BEGIN:VEVENT", "UID:" + uid, "DTSTAMP:20200101T000000Z"]
        if "date" in f:
            ov += ["RECURRENCE-ID;VALUE=DATE:20200124", "DTSTART;VALUE=DATE:20200125", "DTEND;VALUE=DATE:20200126"]
        elif "vtimezone" in f:
            ov += ["RECURRENCE-ID;TZID=Europe/Paris:20200124T100000", "DTSTART;TZID=Europe/Paris:20200124T120000", "DTEND;TZID=Europe/Paris:20200124T130000"]
        else:
            ov += ["RECURRENCE-ID:20200124T100000Z", "DTSTART:20200124T120000Z", "DTEND:20200124T130000Z"]
        ov += ["SUMMARY:moved", "END:VEVENT"]
        lines += ov
    lines.append("END:VCALENDAR")
    nl = "\n" if "lf" in f else "\r\n"
    return (nl.join(lines) + nl).encode("utf-8")


def make_vcf(idx, feats):
    f = set(feats)
    lines = ["BEGIN:VCARD", "VERSION:3.0", "UID:c14-card-%d" % idx]
    lines.append("FN:" + ("Jürgen 日本" if "non-ascii" in f else "Jo Doe"))
    lines.append("N:Doe;Jo;;;")
    if "escapes" in f:
        lines.append("NOTE:a\\, b\\; c\\\\ d\\ne")
    if "folded" in f:
        lines += fold("NOTE:" + "long note " * 14)
    if "param" in f:
        lines.append("TEL;TYPE=WORK,VOICE:+1 555 0100")
    lines.append("EMAIL:jo@example.com")
    if "multi-email" in f:
        lines.append("EMAIL;TYPE=HOME:jo@home.example")
    lines.append("END:VCARD")
    nl = "\n" if "lf" in f else "\r\n"
    return (nl.join(lines) + nl).encode("utf-8")


VALID_MULTI = []


def invalid_cases():
    out = []
    del VALID_MULTI[:]
    out.append(("ics", "empty", b""))
    out.append(("vcf", "empty", b""))
    for i, t in enumerate([b"hello world\r\n", b"<html></html>", b"BEGIN\r\n", b"\x00\x01\x02", b"{\"json\": true}", b"BEGIN:VCALENDAR", b"END:VCALENDAR\r\nBEGIN:VCALENDAR\r\n"]):
        out.append(("ics", "arbitrary-text-%d" % i, t))
        out.append(("vcf", "arbitrary-text-%d" % i, t))
    ref = make_ics(9000, ["valarm", "vtimezone"])
    lines = ref.split(b"\r\n")
    for k in range(1, len(lines) - 1):
        out.append(("ics", "truncated-after-line-%d" % k, b"\r\n".join(lines[:k]) + b"\r\n"))
    refc = make_vcf(9000, ["param"])
    lines = refc.split(b"\r\n")
    for k in range(1, len(lines) - 1):
        out.append(("vcf", "truncated-after-line-%d" % k, b"\r\n".join(lines[:k]) + b"\r\n"))
    for prop in ("SUMMARY", "DESCRIPTION", "LOCATION", "COMMENT"):
        for ch in (b"\x00", b"\x01", b"\x0c", b"\x08", b"\x0b", b"\x1f", b"\x7f"):
            body = B.ics("ctl", "x").replace(b"SUMMARY:x", prop.encode() + b":bad" + ch + b"char" + (b"\r\nSUMMARY:x" if prop != "SUMMARY" else b""))
            # xandikos documents \x01 and \x0c as forbidden (and its parser rejects NUL); RFC 5545 forbids all of %x00-08 / %x0A-1F / %x7F
            cls = "control-char" if ch in (b"\x01", b"\x0c") else "rfc5545-only-control-char"
            out.append(("ics", "%s-%s-%02x" % (cls, prop, ch[0]), body))
    # the forbidden characters xandikos lists, in a TEXT property of EVERY component position of multi-component objects
    multi = {
        "master+override": ["BEGIN:VEVENT", "UID:m1", "DTSTAMP:20200101T000000Z", "DTSTART:20200110T100000Z", "RRULE:FREQ=WEEKLY;COUNT=3", "SUMMARY:@1", "END:VEVENT",
                            "BEGIN:VEVENT", "UID:m1", "DTSTAMP:20200101T000000Z", "RECURRENCE-ID:20200117T100000Z", "DTSTART:20200117T120000Z", "SUMMARY:@2", "END:VEVENT"],
        "two-alarms": ["BEGIN:VEVENT", "UID:m2", "DTSTAMP:20200101T000000Z", "DTSTART:20200110T100000Z", "SUMMARY:@1",
                       "BEGIN:VALARM", "ACTION:DISPLAY", "DESCRIPTION:@2", "TRIGGER:-PT15M", "END:VALARM",
                       "BEGIN:VALARM", "ACTION:DISPLAY", "DESCRIPTION:@3", "TRIGGER:-PT5M", "END:VALARM", "END:VEVENT"],
        "event+todo": ["BEGIN:VEVENT", "UID:m3", "DTSTAMP:20200101T000000Z", "DTSTART:20200110T100000Z", "SUMMARY:@1", "END:VEVENT",
                       "BEGIN:VTODO", "UID:m3", "DTSTAMP:20200101T000000Z", "SUMMARY:@2", "END:VTODO"],
        "timezone+event": ["BEGIN:VTIMEZONE", "TZID:X/Y", "BEGIN:STANDARD", "DTSTART:19701025T030000", "TZOFFSETFROM:+0200", "TZOFFSETTO:+0100", "TZNAME:@1", "END:STANDARD",
                           "BEGIN:DAYLIGHT", "DTSTART:19700329T020000", "TZOFFSETFROM:+0100", "TZOFFSETTO:+0200", "TZNAME:@2", "END:DAYLIGHT", "END:VTIMEZONE",
                           "BEGIN:VEVENT", "UID:m4", "DTSTAMP:20200101T000000Z", "DTSTART;TZID=X/Y:20200110T100000", "SUMMARY:@3", "END:VEVENT"],
        "event+timezone-after": ["BEGIN:VEVENT", "UID:m5", "DTSTAMP:20200101T000000Z", "DTSTART:20200110T100000Z", "SUMMARY:@1", "END:VEVENT",
                                 "BEGIN:VTIMEZONE", "TZID:X/Y", "BEGIN:STANDARD", "DTSTART:19701025T030000", "TZOFFSETFROM:+0200", "TZOFFSETTO:+0100", "TZNAME:@2", "END:STANDARD", "END:VTIMEZONE"],
    }
    for lname, lines in multi.items():
        npos = sum(1 for l in lines if "@" in l)
        for pos in range(1, npos + 1):
            for ch in ("\x01", "\x0c"):
                body = []
                for l in lines:
                    if "@" in l:
                        k = int(l[l.index("@") + 1:])
                        l = l[:l.index("@")] + ("bad" + ch + "char" if k == pos else "fine")
                    body.append(l)
                data = ("\r\n".join(["BEGIN:VCALENDAR", "VERSION:2.0", "PRODID:-//xv//C14//EN"] + body + ["END:VCALENDAR"]) + "\r\n").encode("utf-8")
                out.append(("ics", "control-char-in-%s-position-%d-%02x" % (lname, pos, ord(ch)), data))
        clean = [l[:l.index("@")] + "fine" if "@" in l else l for l in lines]
        VALID_MULTI.append((lname, ("\r\n".join(["BEGIN:VCALENDAR", "VERSION:2.0", "PRODID:-//xv//C14//EN"] + clean + ["END:VCALENDAR"]) + "\r\n").encode("utf-8")))
    # a complete object followed by something that is not one: every truncation of a second copy, and arbitrary text
    # (a parser that stops after the first object must not make the whole body acceptable)
    refc2 = make_vcf(9001, ["param"])
    lines = refc2.split(b"\r\n")
    for k in range(1, len(lines) - 1):
        out.append(("vcf", "complete-card-then-truncated-after-line-%d" % k, refc + b"\r\n".join(lines[:k]) + b"\r\n"))
    for i, t in enumerate([b"hello world\r\n", b"<html></html>\r\n", b"END:VCARD trailing\r\n"]):
        out.append(("vcf", "complete-card-then-text-%d" % i, refc + t))
    out.append(("vcf", "card-without-begin-end", b"VERSION:3.0\r\nFN:Jo\r\nN:Doe;Jo;;;\r\n"))
    out.append(("vcf", "card-without-end", b"BEGIN:VCARD\r\nVERSION:3.0\r\nFN:Jo\r\nN:Doe;Jo;;;\r\n"))
    out.append(("vcf", "card-without-begin", b"VERSION:3.0\r\nFN:Jo\r\nN:Doe;Jo;;;\r\nEND:VCARD\r\n"))
    out.append(("ics", "begin-without-end", b"BEGIN:VCALENDAR\r\nVERSION:2.0\r\nBEGIN:VEVENT\r\nUID:x\r\nSUMMARY:x\r\n"))
    out.append(("ics", "vcard-as-calendar", make_vcf(9001, [])))
    out.append(("vcf", "calendar-as-vcard", make_ics(9001, [])))
    # the same media types spelled differently (media types are case-insensitive; white space around ';' is allowed)
    for sp in ("TEXT/CALENDAR", "Text/Calendar; charset=utf-8", "text/calendar ; charset=utf-8", "text/calendar;charset=UTF-8", " text/calendar"):
        out.append(("ics", "ct[%s]arbitrary-text" % sp, b"hello world\r\n"))
        out.append(("ics", "ct[%s]begin-without-end" % sp, b"BEGIN:VCALENDAR\r\nVERSION:2.0\r\nBEGIN:VEVENT\r\nUID:x\r\nSUMMARY:x\r\n"))
    for sp in ("TEXT/VCARD", "Text/vCard; charset=utf-8", "text/vcard ; charset=utf-8"):
        out.append(("vcf", "ct[%s]card-without-begin-end" % sp, b"VERSION:3.0\r\nFN:Jo\r\nN:Doe;Jo;;;\r\n"))
    # the media type of the other kind of collection: a broken card sent to a calendar, a broken calendar sent to an address book
    out.append(("vcf", "other-collection:card-without-begin-end", b"VERSION:3.0\r\nFN:Jo\r\nN:Doe;Jo;;;\r\n"))
    out.append(("vcf", "other-collection:arbitrary-text", b"hello world\r\n"))
    out.append(("ics", "other-collection:begin-without-end", b"BEGIN:VCALENDAR\r\nVERSION:2.0\r\nBEGIN:VEVENT\r\nUID:x\r\nSUMMARY:x\r\n"))
    out.append(("ics", "other-collection:arbitrary-text", b"hello world\r\n"))
    return out


def commit_count(root, coll):
    rc, out, err = _run_git(os.path.join(root, davsys.COLL_PATHS[coll].strip("/")), "rev-list", "--count", "HEAD")
    return int(out.decode().strip()) if rc == 0 else -1


def dir_listing(root, coll):
    p = os.path.join(root, davsys.COLL_PATHS[coll].strip("/"))
    return sorted(n for n in os.listdir(p) if n not in (".git",))


def _group(args):
    cfg, cases = args
    vios = {}
    stats = {"valid": 0, "valid_accepted": 0, "fixed_point_ok": 0, "invalid": 0, "invalid_refused": 0, "requests": 0, "outcomes": set()}

    def vio(what, summary, detail):
        sig = "C14|%s|%s" % (cfg.label, what)
        e = vios.get(sig)
        if e is None:
            vios[sig] = {"summary": summary, "witness": {"config": cfg.label, "detail": detail}, "count": 1}
        else:
            e["count"] += 1

    s = DavSys(cfg)
    try:
        s.replay([])
        r = s.req("MKCALENDAR", s.url("c2"))
        tree = cfg.backend == "tree"
        for case in cases:
            kind = case[0]
            if kind == "valid":
                _, typ, idx, feats, body = case
                stats["valid"] += 1
                coll = "cal" if typ == "ics" else "ab"
                name = "v%d.%s" % (idx, typ)
                ct = B.CT_ICS if typ == "ics" else B.CT_VCF
                r1 = s.req("PUT", s.url(coll, name), {"Content-Type": ct}, body)
                st1 = dav.effective_status(r1)
                fk = "+".join(feats) or "plain"
                stats["outcomes"].add(("valid", typ, st1))
                if st1 not in (200, 201, 204):
                    vio("valid-body-refused:%s:%s" % (typ, st1), "a well-formed %s body (features %s) was answered %s %s" % (typ, fk, st1, r1.exc or ""), {"features": feats, "body": body})
                    continue
                stats["valid_accepted"] += 1
                g = s.req("GET", s.url(coll, name))
                served = g.body
                if g.status != 200:
                    vio("stored-not-served:%s" % typ, "GET after a successful PUT answered %s" % g.status, {"features": feats})
                    continue
                try:
                    if typ == "ics":
                        ical.parse_calendar(served)
                        same = ical.same_calendar(served, body)
                    else:
                        ical.parse_vcard(served)
                        same = served == body
                except (ical.ParseError, UnicodeDecodeError) as e:
                    vio("served-unparseable:%s" % typ, "the independent reader cannot parse what the server stored: %s" % e, {"features": feats, "served": served})
                    continue
                if not same:
                    vio("served-differs-from-upload:%s:%s" % (typ, fk if len(feats) <= 1 else "multi"), "stored object is not property-for-property identical to the upload", {"features": feats, "upload": body, "served": served})
                tag0 = s.audit_tag(coll)
                n0 = commit_count(s.root, coll)
                r2 = s.req("PUT", s.url(coll, name), {"Content-Type": ct}, served)
                st2 = dav.effective_status(r2)
                tag1 = s.audit_tag(coll)
                n1 = commit_count(s.root, coll)
                g2 = s.req("GET", s.url(coll, name))
                ok = True
                if st2 not in (200, 201, 204):
                    vio("reupload-refused:%s:%s" % (typ, st2), "uploading what the server serves was answered %s" % st2, {"features": feats, "served": served})
                    ok = False
                else:
                    if r2.headers.get("etag") != g.headers.get("etag") or g2.headers.get("etag") != g.headers.get("etag"):
                        vio("reupload-changes-etag:%s" % typ, "uploading what the server serves changed the ETag (%s -> %s)" % (g.headers.get("etag"), r2.headers.get("etag")), {"features": feats, "served": served, "served_again": g2.body})
                        ok = False
                    if tag0 != tag1:
                        vio("reupload-changes-ctag:%s" % typ, "uploading what the server serves changed the collection tag", {"features": feats})
                        ok = False
                    if n0 != n1:
                        vio("reupload-adds-commit:%s" % typ, "uploading what the server serves added %d commit(s)" % (n1 - n0), {"features": feats})
                        ok = False
                # what the server serves through a REPORT (how CalDAV / CardDAV clients download objects) is the same object:
                # uploading that representation again is a no-op as well
                mg = s.req("REPORT", s.url(coll), dict(dav.XML_CT, Depth="1"), dav.multiget_body("calendar" if typ == "ics" else "addressbook", [s.url(coll, name)], [dav.P_GETETAG, dav.P_CALDATA if typ == "ics" else dav.P_ADDRDATA]))
                if mg.status == 207:
                    msr = dav.parse_multistatus(mg.body)
                    dtext = msr.responses[0].prop_text(dav.P_CALDATA if typ == "ics" else dav.P_ADDRDATA) if msr.responses else None
                    if dtext is not None:
                        n_a = commit_count(s.root, coll)
                        up = dtext.encode("utf-8")
                        if b"\r\n" in g.body:
                            # (an XML parser hands CRLF over as LF; cards are stored byte for byte, so the client's copy gets
                            # its line ends back before it is compared / uploaded)
                            up = up.replace(b"\r\n", b"\n").replace(b"\n", b"\r\n")
                        r4 = s.req("PUT", s.url(coll, name), {"Content-Type": ct}, up)
                        n_b = commit_count(s.root, coll)
                        if dav.effective_status(r4) not in (200, 201, 204) or r4.headers.get("etag") != g.headers.get("etag") or n_a != n_b:
                            vio("reupload-of-report-data-not-a-noop:%s" % typ, "uploading the %s the multiget report serves answered %s, ETag %s (GET: %s), %d new commit(s)" % ("calendar-data" if typ == "ics" else "address-data", dav.effective_status(r4), r4.headers.get("etag"), g.headers.get("etag"), n_b - n_a), {"features": feats})
                            ok = False
                # normalisation is idempotent: the served bytes stored elsewhere get the same etag
                if typ == "ics":
                    r3 = s.req("PUT", s.url("c2", name), {"Content-Type": ct}, served)
                    if dav.effective_status(r3) in (200, 201, 204):
                        if r3.headers.get("etag") != g.headers.get("etag"):
                            vio("normalisation-not-idempotent:%s" % typ, "the served bytes get another ETag when stored in a fresh collection", {"features": feats})
                            ok = False
                        s.req("DELETE", s.url("c2", name))
                    else:
                        vio("served-refused-elsewhere:%s" % typ, "the served bytes were refused by a fresh collection (%s)" % dav.effective_status(r3), {"features": feats})
                        ok = False
                if ok:
                    stats["fixed_point_ok"] += 1
                s.req("DELETE", s.url(coll, name))
            else:
                _, typ, label, body = case
                stats["invalid"] += 1
                for c_ in ("cal", "ab"):
                    if s.req("DELETE", s.url(c_, "plain-copy.txt")).status == 204:
                        pass
                coll = "cal" if typ == "ics" else "ab"
                name = "inv.%s" % typ
                ct = B.CT_ICS if typ == "ics" else B.CT_VCF
                spelled = None
                if label.startswith("other-collection:"):
                    coll = "ab" if typ == "ics" else "cal"
                if label.startswith("ct["):
                    spelled = ct = label[3:label.index("]")]
                # the same bytes may already be in the collection under a media type that is not validated (a plain file):
                # that must not make them acceptable as a calendar / card
                plain = None
                if body and not label.startswith(("ct[", "other-collection:")):
                    rp_ = s.req("PUT", s.url(coll, "plain-copy.txt"), {"Content-Type": "text/plain"}, body)
                    if dav.effective_status(rp_) in (200, 201, 204):
                        plain = s.url(coll, "plain-copy.txt")
                before = (s.listing(coll), dir_listing(s.root, coll) if tree else None, s.audit_tag(coll))
                r1 = s.req("PUT", s.url(coll, name), {"Content-Type": ct}, body)
                st1 = dav.effective_status(r1)
                if st1 not in (200, 201, 204):
                    # a client that retries the refused upload unchanged must be refused again
                    r1b = s.req("PUT", s.url(coll, name), {"Content-Type": ct}, body)
                    if dav.effective_status(r1b) in (200, 201, 204):
                        st1 = dav.effective_status(r1b)
                        label = label + "-on-retry"
                after = (s.listing(coll), dir_listing(s.root, coll) if tree else None, s.audit_tag(coll))
                retry = label.endswith("-on-retry")
                label0 = label[:-len("-on-retry")] if retry else label
                cls = label0.rstrip("0123456789abcdef").rstrip("-") if "control-char" in label0 else label0.rstrip("0123456789").rstrip("-")
                if "control-char-in-" in label:
                    cls = "control-char-in-" + label.split("control-char-in-")[1].rsplit("-position-", 1)[0] + "-not-last" if not label.rsplit("-position-", 1)[1].startswith(str(label.count("@") or 9)) else cls
                    cls = "control-char-in-multi-component-object"
                elif "control-char" in cls:
                    cls = cls.split("-char")[0] + "-char"
                if spelled:
                    cls = "media-type-spelled-differently"
                if label.startswith("other-collection:"):
                    cls = "sent-to-the-other-kind-of-collection"
                if retry:
                    cls += ":accepted-when-retried"
                stats["outcomes"].add(("invalid", typ, cls, st1))
                if st1 in (200, 201, 204):
                    g = s.req("GET", s.url(coll, name))
                    parses = True
                    try:
                        (ical.parse_calendar if typ == "ics" else ical.parse_vcard)(g.body)
                    except Exception:
                        parses = False
                    vio("invalid-body-stored:%s:%s%s" % (typ, cls, "" if parses else ":served-unparseable"), "a body of the invalid class %s was acknowledged with %s%s" % (label, st1, " (the same bytes were in the collection as a text/plain file)" if plain else ""), {"label": label, "body": body, "served": g.body})
                    s.req("DELETE", s.url(coll, name))
                    continue
                stats["invalid_refused"] += 1
                if before != after:
                    what = "listing" if before[0] != after[0] else ("stray-file-on-disk" if before[1] != after[1] else "ctag")
                    vio("refused-body-left-trace:%s:%s:%s" % (typ, cls, what), "a refused upload changed %s: %s -> %s" % (what, before, after), {"label": label, "body": body})
                    # clean up so later cases are not affected
                    if tree:
                        p = os.path.join(s.root, davsys.COLL_PATHS[coll].strip("/"), name)
                        if os.path.exists(p):
                            os.unlink(p)
        stats["requests"] = s.nreq
    finally:
        s.close()
    stats["outcomes"] = sorted(stats["outcomes"], key=repr)
    return vios, stats


def _audit_tag(self, coll):
    r = self.req("PROPFIND", self.url(coll), dict(dav.XML_CT, Depth="0"), dav.propfind_body([dav.P_SYNCTOKEN, dav.P_CTAG_CS, dav.P_GETETAG]))
    ms = dav.parse_multistatus(r.body) if r.status == 207 else None
    if ms is None or ms.parse_error or not ms.responses:
        return ("status", r.status)
    x = ms.responses[0]
    return (x.prop_text(dav.P_SYNCTOKEN), x.prop_text(dav.P_CTAG_CS), x.prop_text(dav.P_GETETAG))


def _listing(self, coll):
    r = self.req("PROPFIND", self.url(coll), dict(dav.XML_CT, Depth="1"), dav.propfind_body([dav.P_GETETAG]))
    if r.status != 207:
        return ("status", r.status)
    ms = dav.parse_multistatus(r.body)
    return tuple(sorted((x.href or "", x.prop_text(dav.P_GETETAG)) for x in ms.responses))


DavSys.audit_tag = _audit_tag
DavSys.listing = _listing


def run(tier, workers=None):
    rep = Reporter("C14", tier)
    names = {"cal": [], "ab": [], "c2": []}
    cfgs = [Config(front="wsgi", backend="tree", prefix="/", names=names, features=set())]
    if tier == "thorough":
        cfgs.append(Config(front="aio", backend="bare", prefix="/dav/", names=names, features=set()))
    valid = []
    idx = 0
    toggles = ICS_TOGGLES if tier == "thorough" else ICS_TOGGLES[:7]
    for r in range(len(toggles) + 1):
        for feats in itertools.combinations(toggles, r):
            idx += 1
            valid.append(("valid", "ics", idx, list(feats), make_ics(idx, feats)))
    if tier == "quick":
        # the three remaining toggles alone and all together
        for feats in (["rrule-exdate"], ["override"], ["date"], ["rrule-exdate", "override"], ["rrule-exdate", "override", "date"], ICS_TOGGLES):
            idx += 1
            valid.append(("valid", "ics", idx, list(feats), make_ics(idx, feats)))
    for r in range(len(VCF_TOGGLES) + 1):
        for feats in itertools.combinations(VCF_TOGGLES, r):
            idx += 1
            valid.append(("valid", "vcf", idx, list(feats), make_vcf(idx, feats)))
    invalid = [("invalid",) + c for c in invalid_cases()]
    for (lname, data) in VALID_MULTI:
        idx += 1
        valid.append(("valid", "ics", idx, ["multi:" + lname], data))
    allcases = valid + invalid
    nw = workers or 16
    jobs = []
    for cfg in cfgs:
        chunks = [allcases[i::nw] for i in range(nw)]
        for ch in chunks:
            if ch:
                jobs.append((cfg, ch))
    ctx = mp.get_context("fork")
    with ctx.Pool(nw) as pool:
        results = pool.map(_group, jobs, chunksize=1)
    tot = {"valid": 0, "valid_accepted": 0, "fixed_point_ok": 0, "invalid": 0, "invalid_refused": 0, "requests": 0}
    outcomes = set()
    for vios, stats in results:
        rep.merge(vios)
        for k in tot:
            tot[k] += stats[k]
        outcomes |= {tuple(o) for o in stats["outcomes"]}
    if tot["valid_accepted"] == 0:
        rep.violation("C14|*|no-valid-body-accepted", "no valid body was accepted: nothing is decided", {})
    cov = {
        "evaluations": tot["valid"] + tot["invalid"],
        "distinct_nontrivial": tot["valid_accepted"] + tot["invalid_refused"],
        "rule": "every combination of the feature toggles (each body distinct by construction) + every member of the invalid classes; non-trivial = a valid body that was accepted and went through the whole re-upload cycle, or an invalid body that was refused and audited for traces",
        "samples": [{"features": v[3], "body": v[4].decode("utf-8")} for v in (valid[0], valid[len(valid) // 3], valid[-1])] + [{"invalid": i[2], "body": i[3].decode("latin-1")} for i in invalid[:3]],
        "valid_bodies": tot["valid"], "valid_accepted": tot["valid_accepted"], "fixed_point_cycles_ok": tot["fixed_point_ok"],
        "invalid_bodies": tot["invalid"], "invalid_refused": tot["invalid_refused"],
        "ics_toggles": toggles, "vcf_toggles": VCF_TOGGLES,
        "distinct_outcomes": len(outcomes), "outcomes": [list(o) for o in sorted(outcomes, key=repr)],
        "requests_executed": tot["requests"],
        "configs": [c.label for c in cfgs],
        "exhaustive": True,
    }
    return rep.finish("exploration", cov, assumptions=[
        "media type always matches the extension (.ics with text/calendar, .vcf with text/vcard)",
        "stored-vs-upload comparison for iCalendar is property-for-property through the independent content-line reader; vCards byte-for-byte",
    ])
