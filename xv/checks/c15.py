"""C15 - collection properties read back as written, persist, and stay separate.

Part A (E2): value grammar x property x collection x metadata back end, each
value set by PROPPATCH on a live world, read back, read back after a restart.
Part B (E1): BFS over set / remove / restart histories on three collections.
Part C: the same values through extended MKCOL / MKCALENDAR bodies.
"""

import multiprocessing as mp

from ..core import dav, davsys, explore
from ..core.davsys import Config, DavSys, PROP_TAGS
from ..core.report import Reporter
from . import e1common

META = ["%", '"', "'", "[", "]", "#", "=", ":", ";", "\\", "é", "日"]


def text_values(tier, allow_semicolon=True):
    vals = ["plain", "Plain", "PLAIN", "two words", "two  words", "Two Words"]
    chars = [c for c in META if allow_semicolon or c != ";"]
    for c in chars:
        vals += [c, c + c, c + "lead", "trail" + c, "in" + c + "fix"]
    # text that Unicode normalisation would change: decomposed e-acute, OHM SIGN / ANGSTROM SIGN (singletons), a Hangul jamo sequence
    vals += ["e\u0301", "Cafe\u0301 de\u0301ja\u0300", "\u2126 \u212b", "\u1112\u1161\u11ab"]
    vals += ["%(x)s", "100%", "50%% off", "${x}", "[section]", "key = value", "a: b", "# not a comment", "x ; y" if allow_semicolon else "x y", "été 日本"]
    if tier == "thorough":
        for c in chars:
            for d in chars:
                if c != d:
                    vals.append("a" + c + d + "b")
    seen = []
    for v in vals:
        if v not in seen and v == v.strip():
            seen.append(v)
    return seen


# consecutive values that differ only in letter case: a set must not be dropped as "unchanged"
COLOR_VALUES = ["#FF0000", "#ff0000", "#00ff7f", "#00FF7F", "#12345678", "#ABCDEF00", "#abcdef00"]
ORDER_VALUES = ["0", "1", "10", "007", "-1"]

# (collection, property key) -> value list name
SETTABLE = [
    ("cal", "displayname", "text"), ("cal", "comment", "text"), ("cal", "calcolor", "color"), ("cal", "calorder", "order"),
    ("ab", "displayname", "text"), ("ab", "abdesc", "text"), ("ab", "comment", "text"), ("ab", "abcolor", "color"),
]


def _grid_group(args):
    cfg, coll, pkey, values = args
    vios = {}
    stats = {"cases": 0, "set_ok": 0, "set_refused": 0, "set_5xx": 0, "worlds": 0, "requests": 0}

    def vio(what, summary, detail):
        sig = "C15|%s|%s" % (cfg.label, what)
        e = vios.get(sig)
        if e is None:
            vios[sig] = {"summary": summary, "witness": {"config": cfg.label, "detail": detail}, "count": 1}
        else:
            e["count"] += 1

    def vclass(v):
        """Model-level class of a value: which metacharacters it contains."""
        if enc:
            return "sent-as-%s%s" % (enc[0], "" if enc[1] else "-declared-in-the-document-only")
        cs = sorted({c for c in v if c in META})
        if "%" in cs:
            if "%%" in v:
                return "contains-%%"
            return "contains-%"
        return "meta:" + "".join(cs) if cs else "plain"

    s = None
    try:
        for v in values:
            enc = None
            if isinstance(v, tuple):
                v, enc = v
            if s is None:
                s = DavSys(cfg)
                s.replay([])
                stats["worlds"] += 1
            stats["cases"] += 1
            info = s.apply(("proppatch", coll, pkey, v) + ((enc,) if enc else ()), check=False)
            a = s.last_audit
            if info.get("success"):
                stats["set_ok"] += 1
                got = a[coll]["props"].get(pkey)
                bad = False
                if got != v:
                    bad = True
                    vio("readback:%s:%s:immediately:%s" % (pkey, vclass(v), "missing" if got is None else "different"), "%s of %s set to %r (200) but PROPFIND returns %r" % (pkey, coll, v, got), {"coll": coll, "prop": pkey, "value": v, "got": got})
                s.apply(("restart",), check=False)
                a2 = s.last_audit
                got2 = a2[coll]["props"].get(pkey)
                if got2 != v and not bad:
                    bad = True
                    vio("readback:%s:%s:after-restart:%s" % (pkey, vclass(v), "missing" if got2 is None else "different"), "%s of %s set to %r (200) but after a restart PROPFIND returns %r" % (pkey, coll, v, got2), {"coll": coll, "prop": pkey, "value": v, "got": got2})
                if not a2[coll]["exists"]:
                    vio("collection-broken-after-set:%s:%s" % (pkey, vclass(v)), "collection no longer answers PROPFIND after setting %s=%r" % (pkey, v), {"value": v})
                    bad = True
                for other in ("cal", "ab"):
                    if other != coll and DavSys.observable(a2[other]) != DavSys.observable(s.initial_audit[other]):
                        vio("other-collection-changed:%s" % pkey, "setting %s on %s changed %s" % (pkey, coll, other), {"value": v})
                        bad = True
                if bad:
                    s.close()
                    s = None
            else:
                if info.get("status", 0) and (info["status"] >= 500 or info.get("exc")):
                    stats["set_5xx"] += 1
                else:
                    stats["set_refused"] += 1
                # a request that did not report success must change nothing
                if DavSys.observable(a[coll]) != DavSys.observable(s.prev_audit[coll]):
                    vio("failed-set-changed-state:%s:%s" % (pkey, vclass(v)), "PROPPATCH of %s=%r did not report success (%s) but changed the collection" % (pkey, v, info.get("status")), {"value": v, "info": info})
                    s.close()
                    s = None
                elif not a[coll]["exists"]:
                    s.close()
                    s = None
    finally:
        if s is not None:
            stats["requests"] += s.nreq
            s.close()
    return vios, stats, (cfg.label, coll, pkey)


def _mk_group(args):
    """Part C: extended MKCOL / MKCALENDAR with a property in the body."""
    cfg, method, pkey, values = args
    vios = {}
    stats = {"cases": 0, "set_ok": 0}
    for v in values:
        s = DavSys(cfg)
        try:
            s.replay([])
            stats["cases"] += 1
            tag = PROP_TAGS[pkey]
            if method == "MKCALENDAR":
                body = dav.mkcalendar_body(sets=[(tag, v)])
            else:
                body = dav.mkcol_body(resourcetypes=["{DAV:}collection", "{%s}addressbook" % dav.CARD], sets=[(tag, v)])
            r = s.req(method, s.url("c2"), dav.XML_CT, body)
            ok = False
            if r.status == 201 and r.body:
                import xml.etree.ElementTree as ET
                try:
                    root = ET.fromstring(r.body)
                    for ps in root.iter("{DAV:}propstat"):
                        st = ps.find("{DAV:}status")
                        code = dav._status_code(st.text if st is not None else "")
                        for p in ps.iter(tag):
                            ok = code == 200
                except ET.ParseError:
                    pass
            if not ok:
                continue
            stats["set_ok"] += 1
            for phase in ("immediately", "after-restart"):
                if phase == "after-restart":
                    s.world.restart()
                a = s.audit()
                got = a["c2"]["props"].get(pkey)
                if got != v:
                    sig = "C15|%s|mk-readback:%s:%s:%s" % (cfg.label, method, pkey, phase)
                    vios.setdefault(sig, {"summary": "%s with %s=%r reported 200 but PROPFIND returns %r" % (method, pkey, v, got), "witness": {"config": cfg.label, "method": method, "prop": pkey, "value": v}, "count": 0})["count"] += 1
                    break
        finally:
            s.close()
    return vios, stats, (cfg.label, method, pkey)


def run(tier, workers=None):
    rep = Reporter("C15", tier)
    names = {"cal": ["a.ics"], "ab": ["a.vcf"], "c2": []}
    cfgs = [
        Config(front="wsgi", backend="tree", prefix="/", metadata="file", names=names, features=set()),
        Config(front="wsgi", backend="tree", prefix="/", metadata="config", names=names, features=set()),
    ]
    if tier == "thorough":
        cfgs += [
            Config(front="aio", backend="bare", prefix="/dav/", metadata="file", names=names, features=set()),
            Config(front="aio", backend="bare", prefix="/dav/", metadata="config", names=names, features=set()),
        ]
    jobs = []
    for cfg in cfgs:
        for (coll, pkey, vk) in SETTABLE:
            if vk == "text":
                vals = text_values(tier, allow_semicolon=(cfg.metadata == "file"))
            elif vk == "color":
                vals = COLOR_VALUES
            else:
                vals = ORDER_VALUES
            # split long value lists so that the groups parallelise
            for i in range(0, len(vals), 24):
                jobs.append((cfg, coll, pkey, vals[i:i + 24]))
            if vk == "text" and pkey in ("displayname", "comment"):
                # the same documents in other character encodings (Latin-1 named in the XML declaration with and without the
                # charset parameter; UTF-16): what arrives is the same text
                jobs.append((cfg, coll, pkey, [(v, e) for e in (("iso-8859-1", True), ("iso-8859-1", False), ("utf-16", True)) for v in ("\u00e9", "Caf\u00e9 d\u00e9j\u00e0 vu", "plain")]))
    ctx = mp.get_context("fork")
    with ctx.Pool(workers or 16) as pool:
        results = pool.map(_grid_group, jobs, chunksize=1)
        mkjobs = []
        for cfg in cfgs[:2]:
            tv = text_values("quick", allow_semicolon=(cfg.metadata == "file"))
            tv = tv if tier == "thorough" else tv[:20]
            mkjobs.append((cfg, "MKCALENDAR", "displayname", tv))
            mkjobs.append((cfg, "MKCALENDAR", "calcolor", COLOR_VALUES))
            mkjobs.append((cfg, "MKCALENDAR", "calorder", ORDER_VALUES))
            mkjobs.append((cfg, "MKCOL", "displayname", tv[:12]))
            mkjobs.append((cfg, "MKCOL", "abdesc", tv[:12]))
        mkresults = pool.map(_mk_group, mkjobs, chunksize=1)
    tot = {"cases": 0, "set_ok": 0, "set_refused": 0, "set_5xx": 0, "worlds": 0}
    ok_by_prop = {}
    for vios, stats, (label, coll, pkey) in results:
        rep.merge(vios)
        for k in tot:
            tot[k] += stats[k]
        ok_by_prop[(label, coll, pkey)] = ok_by_prop.get((label, coll, pkey), 0) + stats["set_ok"]
    mk_cases = mk_ok = 0
    for vios, stats, _ in mkresults:
        rep.merge(vios)
        mk_cases += stats["cases"]
        mk_ok += stats["set_ok"]
    for (label, coll, pkey), n in sorted(ok_by_prop.items()):
        if n == 0:
            rep.violation("C15|%s|never-settable:%s:%s" % (label, coll, pkey), "no value of %s could be set on %s (every PROPPATCH was refused or failed): nothing is decided for it" % (pkey, coll), {"config": label})
    # Part B: histories
    hist_cfgs = []
    props = {"cal": {"displayname": ["v1", "v2", None], "calcolor": ["#111111", None]}, "ab": {"displayname": ["v1"], "abdesc": ["d1", None]}, "c2": {"displayname": ["v2"]}}
    for md in ("file", "config"):
        hist_cfgs.append(Config(front="wsgi", backend="tree", prefix="/", metadata=md, names={"cal": ["a.ics"], "ab": [], "c2": []}, bodies={"cal": ["X"], "ab": [], "c2": []},
                                features={"restart", "c2"}, props=props, oracles={"C15"}))
    # two workers (own store caches) on one directory: what one sets the other must read
    for md in (("file",) if tier == "quick" else ("file", "config")):
        hist_cfgs.append(Config(front="wsgi", backend="tree", prefix="/", metadata=md, names={"cal": ["a.ics"], "ab": [], "c2": []}, bodies={"cal": ["X"], "ab": [], "c2": []},
                                features={"two-workers"}, props={k: v for k, v in props.items() if k != "c2"}, oracles={"C15"}, label="tree/wsgi+two-workers%s" % ("" if md == "file" else "+cfgmeta")))
    # uploads under the name the store keeps the properties in
    hist_cfgs.append(Config(front="wsgi", backend="tree", prefix="/", metadata="file", names={"cal": ["a.ics", ".xandikos"], "ab": [".xandikos"], "c2": []}, bodies={"cal": ["X", "CFG"], "ab": ["CFG"], "c2": []},
                            features=set(), props={"cal": {"displayname": ["v1"]}, "ab": {"displayname": ["v1"]}}, oracles={"C15"}, label="tree/wsgi+reserved-names"))
    # a collection made by plain MKCOL (no type recorded): properties set while it is empty, then its first members
    hist_cfgs.append(Config(front="wsgi", backend="tree", prefix="/", metadata="file", names={"cal": [], "ab": [], "c2": ["a.ics", "b.vcf"]}, bodies={"cal": [], "ab": [], "c2": ["X", "K"]},
                            features={"c2", "mkcol", "restart"}, props={"c2": {"displayname": ["v2"], "comment": ["c1"]}}, oracles={"C15"}, label="tree/wsgi+untyped-collection"))
    e1 = {"states": 0, "transitions": 0, "replays": 0}
    per_cfg = []
    for cfg in hist_cfgs:
        seeds_ = [[("mkcol", "c2")], [("mkcol", "c2"), ("proppatch", "c2", "displayname", "v2")]] if "untyped" in cfg.label else ()
        res = explore.explore(lambda cfg=cfg: DavSys(cfg), max_depth=2 if tier == "quick" else 4, workers=workers, max_states=3000, budget_s=None if tier == "quick" else 150, seed_histories=seeds_)
        for e in res.errors:
            rep.harness_error(e[:1500])
        for sig, e in res.violations.items():
            if sig.startswith("C15|"):
                rep.violation(sig, e["summary"], e["witness"])
        e1["states"] += res.states
        e1["transitions"] += res.transitions
        e1["replays"] += res.replays
        per_cfg.append({"config": cfg.label, "states": res.states, "transitions": res.transitions, "fixpoint": res.fixpoint, "caps": res.caps})
    cov = {
        "states": e1["states"],
        "transitions": e1["transitions"] + tot["cases"] + mk_cases,
        "traces_validated_against_impl": e1["replays"] + tot["worlds"] + mk_cases,
        "value_grid_cases": tot["cases"],
        "value_grid_set_ok": tot["set_ok"],
        "value_grid_refused": tot["set_refused"],
        "value_grid_5xx": tot["set_5xx"],
        "mk_cases": mk_cases,
        "mk_set_ok": mk_ok,
        "settable_counts": {"%s %s %s" % k: v for k, v in sorted(ok_by_prop.items())},
        "history_exploration": per_cfg,
        "samples": [{"text_values": text_values(tier)[:15]}, {"colors": COLOR_VALUES, "orders": ORDER_VALUES}],
        "exhaustive": True,
        "rule": "value grid = every metacharacter alone/doubled/leading/trailing/infix (+ all ordered pairs in thorough) x settable property x collection x metadata back end; histories = BFS over set/remove/restart on three collections",
    }
    return rep.finish("model_checking", cov, assumptions=[
        "a set counts as acknowledged only if the propstat for that property says 200; refusals and 5xx must leave the audit unchanged",
        "';' is not generated for the git-config metadata back end (excluded by the property)",
        "values have no leading/trailing white space and no line breaks",
        "request bodies are UTF-8; display name and comment are also sent as ISO-8859-1 (declared in the document, with and without a charset parameter) and UTF-16 documents",
        "one history configuration has two workers (second application object with its own store cache on the same directory); both are audited after every request and must agree",
    ])
