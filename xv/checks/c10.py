"""C10 - query results do not depend on the query history (index transparency).

E1 over the real server started with --index-threshold t.  Transitions are
single calendar-query reports (each filter once, or repeated past the
threshold) and writes.  Oracle: the answer of every executed query equals the
answer of a reference twin - a second backend on the same directory whose
stores never build an index (threshold 10**6, so every query takes the naive
path) - and is never a 5xx.  The state key contains the generic dump of the
store's index (keys, per-key counters, indexed etags).
"""

import hashlib
import os
import posixpath
import shutil
import subprocess
import urllib.parse

from ..core import bodies as B
from ..core import dav, davsys, env, explore, http
from ..core.report import Reporter

E1 = B.ics("e1", "alpha", extra="DTEND:20200105T110000Z", dtstart="20200105T100000Z")
E2 = ("BEGIN:VCALENDAR\r\nVERSION:2.0\r\nPRODID:-//xv//EN\r\n"
      "BEGIN:VEVENT\r\nUID:e1\r\nDTSTAMP:20200101T000000Z\r\nDTSTART:20200105T100000Z\r\nDTEND:20200105T110000Z\r\nRRULE:FREQ=MONTHLY;COUNT=2\r\nSUMMARY:alpha\r\nEND:VEVENT\r\n"
      "BEGIN:VEVENT\r\nUID:e1\r\nDTSTAMP:20200101T000000Z\r\nRECURRENCE-ID:20200205T100000Z\r\nDTSTART:20200206T100000Z\r\nDTEND:20200206T110000Z\r\nSUMMARY:beta\r\nLOCATION:here\r\nEND:VEVENT\r\n"
      "END:VCALENDAR\r\n").encode()
E3 = B.ics("e3", "gamma", dtstart="20200301T100000Z")
T1 = ("BEGIN:VCALENDAR\r\nVERSION:2.0\r\nPRODID:-//xv//EN\r\nBEGIN:VTODO\r\nUID:t1\r\nDTSTAMP:20200101T000000Z\r\nDUE:20200105T120000Z\r\nSUMMARY:alpha\r\nEND:VTODO\r\nEND:VCALENDAR\r\n").encode()
# a VEVENT whose times carry a TZID (11:00-13:00 Europe/Paris = 10:00-12:00 UTC)
ETZ = ("BEGIN:VCALENDAR\r\nVERSION:2.0\r\nPRODID:-//xv//EN\r\n" + B.TZ_BLOCK + "\r\nBEGIN:VEVENT\r\nUID:etz\r\nDTSTAMP:20200101T000000Z\r\n"
       "DTSTART;TZID=Europe/Paris:20200310T110000\r\nDTEND;TZID=Europe/Paris:20200310T130000\r\nSUMMARY:paris\r\nEND:VEVENT\r\nEND:VCALENDAR\r\n").encode()
# a VFREEBUSY with two FREEBUSY properties
FB2 = ("BEGIN:VCALENDAR\r\nVERSION:2.0\r\nPRODID:-//xv//EN\r\nBEGIN:VFREEBUSY\r\nUID:fb2\r\nDTSTAMP:20200101T000000Z\r\n"
       "FREEBUSY:20200310T100000Z/20200310T120000Z\r\nFREEBUSY;FBTYPE=BUSY:20200311T090000Z/PT1H\r\nEND:VFREEBUSY\r\nEND:VCALENDAR\r\n").encode()
# properties that are present but "falsy": an empty text value and a zero integer
EFALSY = B.ics("efalsy", "falsy", extra="LOCATION:\nPRIORITY:0\nSEQUENCE:0", dtstart="20200107T100000Z")
# floating times (no TZID, no Z): they are read in the time zone of the query
EFL = B.ics("efl", "floating", extra="DTEND:20200410T110000", dtstart="20200410T100000")
# a one-day DURATION across the Europe/Paris spring transition: 28 March 12:00 + P1D = 29 March 12:00 local = 10:00 UTC (23 hours)
EDST = ("BEGIN:VCALENDAR\r\nVERSION:2.0\r\nPRODID:-//xv//EN\r\n" + B.TZ_BLOCK + "\r\nBEGIN:VEVENT\r\nUID:edst\r\nDTSTAMP:20200101T000000Z\r\n"
        "DTSTART;TZID=Europe/Paris:20200328T120000\r\nDURATION:P1D\r\nSUMMARY:dst\r\nEND:VEVENT\r\nEND:VCALENDAR\r\n").encode()
# one recurring VEVENT (a single component: the per-resource index weakness does not apply)
ER = B.ics("er", "recurring", extra="DTEND:20200106T110000Z\nRRULE:FREQ=WEEKLY;COUNT=4", dtstart="20200106T100000Z")
BODIES = {"EDST": EDST, "ER": ER, "E1": E1, "E2": E2, "E3": E3, "T1": T1, "ETZ": ETZ, "FB2": FB2, "EF": EFALSY, "EFL": EFL}


def cf(name, inner=""):
    return '<C:comp-filter name="%s">%s</C:comp-filter>' % (name, inner)


def pf(name, inner=""):
    return '<C:prop-filter name="%s">%s</C:prop-filter>' % (name, inner)


def tr(start, end):
    return '<C:time-range start="%s" end="%s"/>' % (start, end)


FILTERS = {
    "vevent": cf("VCALENDAR", cf("VEVENT")),
    "summary-defined": cf("VCALENDAR", cf("VEVENT", pf("SUMMARY"))),
    "summary=alpha": cf("VCALENDAR", cf("VEVENT", pf("SUMMARY", "<C:text-match>alpha</C:text-match>"))),
    "summary=beta": cf("VCALENDAR", cf("VEVENT", pf("SUMMARY", "<C:text-match>beta</C:text-match>"))),
    "range-feb": cf("VCALENDAR", cf("VEVENT", tr("20200201T000000Z", "20200301T000000Z"))),
    "range-jan": cf("VCALENDAR", cf("VEVENT", tr("20200101T000000Z", "20200110T000000Z"))),
    "todo-not-completed": cf("VCALENDAR", cf("VTODO", pf("COMPLETED", "<C:is-not-defined/>"))),
    "summary+no-location": cf("VCALENDAR", cf("VEVENT", pf("SUMMARY") + pf("LOCATION", "<C:is-not-defined/>"))),
    "todo-range": cf("VCALENDAR", cf("VTODO", tr("20200101T000000Z", "20200201T000000Z"))),
    # starts exactly when the TZID event ends (12:00 UTC): must not match it
    "range-after-paris": cf("VCALENDAR", cf("VEVENT", tr("20200310T120000Z", "20200310T140000Z"))),
    "location-defined": cf("VCALENDAR", cf("VEVENT", pf("LOCATION"))),
    "priority-defined": cf("VCALENDAR", cf("VEVENT", pf("PRIORITY"))),
    "location-not-defined": cf("VCALENDAR", cf("VEVENT", pf("LOCATION", "<C:is-not-defined/>"))),
    # a floating 10:00-11:00 event: in the server zone (UTC), and in a query that brings its own CALDAV:timezone (UTC+9)
    "float-range-utc": cf("VCALENDAR", cf("VEVENT", tr("20200410T100000Z", "20200410T110000Z"))),
    "float-range@tokyo-hit": (cf("VCALENDAR", cf("VEVENT", tr("20200410T010000Z", "20200410T020000Z"))), "Asia/Tokyo"),
    "float-range@tokyo-miss": (cf("VCALENDAR", cf("VEVENT", tr("20200410T100000Z", "20200410T110000Z"))), "Asia/Tokyo"),
    # starts exactly when the 23-hour "day" of EDST ends (10:00 UTC on 29 March)
    "range-after-dst-day": cf("VCALENDAR", cf("VEVENT", tr("20200329T100000Z", "20200329T140000Z"))),
    "rrule-defined": cf("VCALENDAR", cf("VEVENT", pf("RRULE"))),
    "rrule-not-defined": cf("VCALENDAR", cf("VEVENT", pf("RRULE", "<C:is-not-defined/>"))),
    "freebusy-range": cf("VCALENDAR", cf("VFREEBUSY", tr("20200311T000000Z", "20200312T000000Z"))),
}

NEVER = 10 ** 6


def seed_unparseable(root):
    """An unparseable .ics committed directly with git (as a user with a checkout could do)."""
    p = os.path.join(root, davsys.COLL_PATHS["cal"].strip("/"))
    with open(os.path.join(p, "broken.ics"), "wb") as f:
        f.write(b"BEGIN:VCALENDAR\r\nthis is not a content line\r\nEND:VCALENDAR\r\n")
    e = dict(os.environ, GIT_AUTHOR_NAME="x", GIT_AUTHOR_EMAIL="x@x", GIT_COMMITTER_NAME="x", GIT_COMMITTER_EMAIL="x@x")
    subprocess.run(["git", "-C", p, "add", "broken.ics"], check=True, env=e, stdout=subprocess.DEVNULL, stderr=subprocess.DEVNULL)
    subprocess.run(["git", "-C", p, "commit", "-q", "-m", "seed"], check=True, env=e, stdout=subprocess.DEVNULL, stderr=subprocess.DEVNULL)


class C10Cfg:
    def __init__(self, threshold, seed_bad=False, filters=None, bodies=("E1", "E2", "T1"), front="wsgi", paranoid=False, second_writer=False, expand=False):
        self.threshold = threshold
        self.seed_bad = seed_bad
        self.filters = filters or list(FILTERS)
        self.bodies = list(bodies)
        self.front = front
        self.paranoid = paranoid
        # a second worker (own store cache, hence its own index) on the same directory also writes
        self.second_writer = second_writer
        self.expand = expand
        self.label = "threshold=%s%s%s%s/%s" % (threshold, "+unparseable" if seed_bad else "", "+paranoid" if paranoid else "", "+second-writer" if second_writer else "", front)

    def make(self):
        return C10Sys(self)


class C10Sys:
    def __init__(self, cfg):
        self.cfg = cfg
        self.root = env.fresh_dir("root")
        os.rmdir(self.root)
        shutil.copytree(davsys.template_root("tree"), self.root, symlinks=True)
        if cfg.seed_bad:
            seed_unparseable(self.root)
        if cfg.front == "wsgi":
            self.world = http.WsgiWorld(self.root, index_threshold=cfg.threshold, paranoid=cfg.paranoid)
        else:
            self.world = http.AioWorld(self.root, index_threshold=cfg.threshold, paranoid=cfg.paranoid)
        with http.twin_context():
            self.twin = http.WsgiWorld(self.root, index_threshold=NEVER)
        self.writer_b = http.WsgiWorld(self.root, index_threshold=cfg.threshold, own_cache=True) if cfg.second_writer else None
        self.model = {}
        self.vios = {}
        self.obs = []
        self.nreq = 0
        self.hist = []
        self.recording = True
        self.base = davsys.COLL_PATHS["cal"]

    def close(self):
        try:
            self.twin.stop()
            if self.writer_b is not None:
                self.writer_b.close()
            self.world.close()
        finally:
            shutil.rmtree(self.root, ignore_errors=True)

    def take_violations(self):
        v, self.vios = self.vios, {}
        return v

    def take_observations(self):
        o, self.obs = self.obs, []
        return o

    def take_request_count(self):
        n, self.nreq = self.nreq, 0
        return n

    def violation(self, what, summary, detail):
        if not self.recording:
            return
        sig = "C10|%s" % what
        e = self.vios.get(sig)
        w = {"config": self.cfg.label, "history": [list(o) for o in self.hist], "detail": detail}
        if e is None:
            self.vios[sig] = {"summary": summary, "witness": w, "count": 1}
        else:
            e["count"] += 1

    def key(self):
        fp = self.world.fingerprint()
        m = tuple(sorted(self.model.items())) + (("@expanded-view-requested", getattr(self, "xflag", 0)),)
        return (m, hashlib.sha1(fp.encode("utf-8", "replace")).hexdigest())

    def enabled_ops(self):
        ops = []
        for b in self.cfg.bodies:
            nm = {"T1": "t.ics", "E3": "c.ics", "ETZ": "z.ics", "FB2": "f.ics", "EF": "e.ics", "EFL": "l.ics", "EDST": "d.ics", "ER": "r.ics"}.get(b, "a.ics")
            ops.append(("put", nm, b))
        for nm in sorted(self.model):
            ops.append(("delete", nm))
        if self.cfg.second_writer:
            ops += [(k + "@b",) + tuple(rest) for (k, *rest) in ops if k in ("put", "delete")]
        for f in self.cfg.filters:
            ops.append(("q", f))
            ops.append(("qq", f))
        if self.cfg.expand:
            # a "week view": all VEVENTs with calendar-data expanded over a range (recurrences rendered as instances)
            ops.append(("qx", "vevent"))
        return ops

    def replay(self, hist):
        for op in hist:
            self.apply(tuple(op), check=False)

    def query(self, world, fname):
        f = FILTERS[fname]
        if isinstance(f, tuple):
            tzcal = "BEGIN:VCALENDAR\r\nVERSION:2.0\r\nPRODID:-//xv//EN\r\nBEGIN:VTIMEZONE\r\nTZID:%s\r\nEND:VTIMEZONE\r\nEND:VCALENDAR\r\n" % f[1]
            body = dav.calquery_body(f[0], [dav.P_GETETAG]).replace(b"</C:calendar-query>", ("<C:timezone>%s</C:timezone></C:calendar-query>" % tzcal).encode())
        else:
            body = dav.calquery_body(f, [dav.P_GETETAG])
        if world is self.twin:
            with http.twin_context():
                r = world.request("REPORT", self.base, dict(dav.XML_CT, Depth="1"), body)
        else:
            r = world.request("REPORT", self.base, dict(dav.XML_CT, Depth="1"), body)
        self.nreq += 1
        if r.status != 207:
            return ("status", r.status, r.exc)
        ms = dav.parse_multistatus(r.body)
        if ms.parse_error:
            return ("unparseable",)
        out = []
        for x in ms.responses:
            out.append((urllib.parse.unquote(posixpath.basename(x.href or "")), x.prop_text(dav.P_GETETAG)))
        return ("ok", tuple(sorted(out)))

    def apply(self, op, check=True):
        self.recording = check
        kind = op[0]
        info = {"outcome": kind, "success": False}
        wr = self.world
        if kind.endswith("@b"):
            kind = kind[:-2]
            wr = self.writer_b
        if kind == "put":
            _, nm, b = op
            r = wr.request("PUT", self.base + nm, {"Content-Type": B.CT_ICS}, BODIES[b])
            self.nreq += 1
            st = dav.effective_status(r)
            info["outcome"] = "put:%s" % st
            if st in (200, 201, 204):
                self.model[nm] = b
                info["success"] = True
        elif kind == "delete":
            _, nm = op
            r = wr.request("DELETE", self.base + nm)
            self.nreq += 1
            info["outcome"] = "delete:%s" % r.status
            if r.status in (200, 204):
                self.model.pop(nm, None)
                info["success"] = True
        elif kind == "qx":
            _, f = op
            xbody = ('<?xml version="1.0" encoding="utf-8"?><C:calendar-query xmlns:D="DAV:" xmlns:C="%s"><D:prop><D:getetag/><C:calendar-data><C:expand start="20200101T000000Z" end="20200401T000000Z"/></C:calendar-data></D:prop>'
                     '<C:filter>%s</C:filter></C:calendar-query>' % (dav.CAL, FILTERS[f])).encode()
            r = self.world.request("REPORT", self.base, dict(dav.XML_CT, Depth="1"), xbody)
            self.nreq += 1
            info["outcome"] = "qx:%s" % r.status
            # (rendering an answer must not change what later queries see; the answer itself is not judged here)
            self.xflag = 1
        elif kind in ("q", "qq"):
            _, f = op
            n = 1 if kind == "q" else (self.cfg.threshold if self.cfg.threshold is not None else 5) + 2
            self.hist.append(op)
            ref = self.query(self.twin, f)
            if ref[0] != "ok":
                self.violation("naive-path-fails:%s:%s" % (f, ref[1] if len(ref) > 1 else ref[0]), "the reference (never-indexing) backend answered %r" % (ref,), {"filter": f, "state": dict(self.model)})
            outs = set()
            for i in range(n):
                got = self.query(self.world, f)
                outs.add(got[0] if got[0] != "ok" else "ok:%d" % len(got[1]))
                if got != ref and ref[0] == "ok":
                    if got[0] != "ok":
                        what = "query-fails:%s:%s" % (f, got[1] if len(got) > 1 else got[0])
                        summ = "query answered %r where evaluating the filter on the current contents gives %r" % (got, ref[1])
                    else:
                        missing = sorted(set(ref[1]) - set(got[1]))
                        extra = sorted(set(got[1]) - set(ref[1]))
                        classes = sorted({self.model.get(n_, "seeded-unparseable") for n_, _ in missing} | {"+" + self.model.get(n_, "seeded-unparseable") for n_, _ in extra})
                        what = "result-differs-from-naive:%s:%s" % (f, ",".join(classes))
                        summ = "query returned %s, evaluating the filter on the current contents gives %s" % ([x[0] for x in got[1]], [x[0] for x in ref[1]])
                    self.violation(what, summ, {"filter": f, "repetition": i + 1, "state": dict(self.model)})
                    break
            info["outcome"] = "%s:%s" % (kind, "/".join(sorted(outs)))
            self.recording = True
            return info
        self.hist.append(op)
        self.recording = True
        return info


def run(tier, workers=None):
    rep = Reporter("C10", tier)
    if tier == "quick":
        cfgs = [C10Cfg(0, filters=["vevent", "summary=beta", "range-feb", "todo-not-completed", "summary+no-location"]),
                C10Cfg(1, filters=["summary=alpha", "range-jan", "todo-range"], bodies=("E1", "E2", "T1")),
                C10Cfg(0, seed_bad=True, filters=["vevent", "summary-defined"], bodies=("E1",)),
                C10Cfg(0, filters=["range-after-paris", "freebusy-range", "range-jan"], bodies=("ETZ", "FB2", "E1")),
                C10Cfg(1, filters=["location-defined", "priority-defined", "location-not-defined"], bodies=("EF", "E1")),
                C10Cfg(0, filters=["float-range-utc", "float-range@tokyo-hit", "float-range@tokyo-miss"], bodies=("EFL", "E1")),
                C10Cfg(0, filters=["summary=alpha", "range-jan"], bodies=("E1", "E3"), second_writer=True),
                C10Cfg(0, filters=["range-after-dst-day", "vevent"], bodies=("EDST",)),
                C10Cfg(1, filters=["rrule-defined", "rrule-not-defined"], bodies=("ER", "E1"), expand=True)]
        depth = {0: 3, 1: 3}
    else:
        cfgs = [C10Cfg(0), C10Cfg(1), C10Cfg(2, filters=["vevent", "summary=beta", "range-feb", "todo-not-completed"]),
                C10Cfg(None, filters=["vevent", "summary=beta", "range-feb"]), C10Cfg(0, seed_bad=True, bodies=("E1", "T1")),
                C10Cfg(1, front="aio", filters=["summary=alpha", "range-feb", "summary+no-location"]),
                C10Cfg(1, filters=["range-after-paris", "freebusy-range", "range-jan", "vevent"], bodies=("ETZ", "FB2", "E1")),
                C10Cfg(0, filters=["location-defined", "priority-defined", "location-not-defined", "vevent"], bodies=("EF", "E1", "E2")),
                C10Cfg(1, filters=["float-range-utc", "float-range@tokyo-hit", "float-range@tokyo-miss", "vevent"], bodies=("EFL", "E1", "ETZ")),
                C10Cfg(1, filters=["summary=alpha", "range-jan", "vevent"], bodies=("E1", "E3", "T1"), second_writer=True),
                C10Cfg(1, filters=["range-after-dst-day", "vevent"], bodies=("EDST", "E1")),
                C10Cfg(0, filters=["rrule-defined", "rrule-not-defined", "range-feb"], bodies=("ER", "E1"), expand=True)]
        depth = {}
    tot = {"states": 0, "transitions": 0, "replays": 0, "requests": 0}
    per_cfg = []
    outcomes = {}
    samples = []
    fix_all = True
    for cfg in cfgs:
        d = 3 if tier == "quick" else 4
        # non-initial start states: an object that was indexed, then removed (or replaced) while the index stayed in use -
        # from there the same bytes coming back is one step away
        nm0 = {"T1": "t.ics", "E3": "c.ics", "ETZ": "z.ics", "FB2": "f.ics", "EF": "e.ics", "EFL": "l.ics", "EDST": "d.ics", "ER": "r.ics"}.get(cfg.bodies[0], "a.ics")
        f0 = cfg.filters[0]
        seeds = [[("put", nm0, cfg.bodies[0]), ("qq", f0), ("delete", nm0), ("q", f0)]]
        if len(cfg.bodies) > 1 and {"T1": "t.ics", "E3": "c.ics", "ETZ": "z.ics", "FB2": "f.ics", "EF": "e.ics", "EFL": "l.ics"}.get(cfg.bodies[1], "a.ics") == nm0:
            seeds.append([("put", nm0, cfg.bodies[0]), ("qq", f0), ("put", nm0, cfg.bodies[1]), ("q", f0)])
        res = explore.explore(cfg.make, max_depth=d, workers=workers, max_states=1500 if tier == "quick" else 8000, budget_s=None if tier == "quick" else 90, seed_histories=seeds)
        for e in res.errors:
            rep.harness_error(e[:1500])
        for sig, e in res.violations.items():
            rep.violation(sig, e["summary"], e["witness"])
        for k in tot:
            tot[k] += getattr(res, k)
        for oc, n in res.outcomes.items():
            outcomes[oc] = outcomes.get(oc, 0) + n
        per_cfg.append({"config": cfg.label, "states": res.states, "transitions": res.transitions, "max_depth": res.max_depth, "fixpoint": res.fixpoint, "caps": res.caps, "levels": res.levels})
        fix_all = fix_all and res.fixpoint
        samples.append({"config": cfg.label, "longest": res.histories[-1]})
    cov = {
        "states": tot["states"],
        "transitions": tot["transitions"],
        "traces_validated_against_impl": tot["replays"],
        "requests_executed": tot["requests"],
        "distinct_outcomes": len(outcomes),
        "outcomes": outcomes,
        "per_config": per_cfg,
        "filters": FILTERS,
        "samples": samples,
        "exhaustive": fix_all,
        "fixpoint_reached_everywhere": fix_all,
        "rule": "BFS over {put, delete, query once, query threshold+2 times} x filters; state = contents + generic dump of index keys/counters/indexed etags; every query compared with a never-indexing twin backend on the same directory",
    }
    return rep.finish("model_checking", cov, assumptions=[
        "reference = the implementation's own naive path on a second backend (threshold 10**6) over the same directory: a differential oracle, so defects of filter semantics (C11) cannot leak in",
        "one configuration has a second worker (own store cache and index) writing to the same directory; the queried worker must follow",
        "seeded start states: an object indexed, then deleted (or replaced) and queried again through the index",
        "queries with their own CALDAV:timezone (UTC+9) against floating times, next to queries in the server zone (TZ=UTC in the harness)",
        "objects: single VEVENT, one resource with two VEVENTs (RRULE master + RECURRENCE-ID override), a VTODO, optionally an unparseable .ics committed with git",
    ])
