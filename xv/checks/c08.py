"""C08 - the collection tag changes exactly when the collection changes."""

from ..core.davsys import Config
from . import e1common

ASSUME = [
    "the first configuration also sends PROPPATCH for properties of a member (executable, displayname, a dead property): whatever the answer, tags must keep following contents only",
    "one configuration has two workers: a second application object with its own store cache on the same directory (gunicorn workers = 2 in the repository's examples); every write is offered to either worker, and after every request both workers are audited and must show the same",
    "tags compared: getctag (both namespaces), sync-token, collection getetag",
    "cross-history oracle over ALL visited states: tag -> contents is a function, and (git) contents -> tag is a function",
    "the tags are read a second time at the end of every audit (after the audit's own PROPFIND of all properties, GETs and reports): reads must not move them",
    "only one collection property per configuration (displayname; colours in their own configuration) is in the alphabet so that the versioned metadata file has one canonical form per observable state",
]


def configs(tier):
    feats = {"c2", "restart", "nope"}
    bodies = {"cal": ["X", "X2", "Z", "BAD"], "ab": ["K"], "c2": ["X", "Z"]}
    props = {"cal": {"displayname": ["d1", None]}}
    out = [
        Config(front="wsgi", backend="tree", prefix="/", features=feats | {"member-props"}, bodies=bodies, props=props, oracles={"C08"}),
        Config(front="wsgi", backend="bare", prefix="/dav/", features=feats, bodies=bodies, props=props, oracles={"C08"}),
    ]
    # property values next to the canonical ones (a colour without '#'): one property per configuration, see ASSUME
    cprops = {"cal": {"calcolor": ["ff0000", "#00ff00"]}, "ab": {"abcolor": ["0000ff"]}}
    out.append(Config(front="wsgi", backend="tree", prefix="/", features={"nope"}, bodies={"cal": ["X"], "ab": ["K"], "c2": []}, props=cprops, oracles={"C08"}, label="tree/wsgi+colours"))
    # reads that build the query index (threshold 0) next to members that are not calendars
    out.append(Config(front="wsgi", backend="tree", prefix="/", threshold=0, features={"queries"}, names={"cal": ["a.ics", "n.txt"], "ab": [], "c2": []}, bodies={"cal": ["X", "TXT"], "ab": [], "c2": []},
                      props={}, oracles={"C08"}, label="tree/wsgi+index+plain-files"))
    out.append(Config(front="wsgi", backend="bare", prefix="/", features={"two-workers"}, names={"cal": ["a.ics", "b.ics"], "ab": ["a.vcf"], "c2": []}, bodies={"cal": ["X", "X2"], "ab": ["K"], "c2": []},
                      props={"cal": {"displayname": ["d1"]}}, oracles={"C08"}, label="bare/wsgi+two-workers"))
    if tier == "thorough":
        out += [
            Config(front="aio", backend="tree", prefix="/dav/", features=feats | {"post"}, bodies=bodies, props=props, oracles={"C08"}),
            Config(front="wsgi", backend="tree", prefix="/", metadata="config", features=feats, bodies=bodies, props=props, oracles={"C08"}),
        ]
    return out


def run(tier, workers=None):
    def seeds(cfg):
        # start from non-initial states too: a second collection with a member, and one that was deleted again
        return [[("mkcalendar", "c2"), ("put", "c2", "a.ics", "X")], [("mkcalendar", "c2"), ("put", "c2", "a.ics", "X"), ("delcoll", "c2")],
                [("put", "cal", "a.ics", "X"), ("put", "cal", "a.ics", "X2")]]

    def depth_of(cfg):
        return (2, None) if tier == "quick" else (4, 3000)

    def post(rep, obs):
        n = e1common.cross_history_tags(rep, "C08", obs)
        return {"distinct_tags_observed": n}

    faults = {
        # the fault phase runs on the core configurations (the special-purpose ones share the same write path)
        "configs": [c for c in configs(tier) if "+" not in getattr(c, "label", "") or c.label.endswith("+cfgmeta")],
        "histories": [[("put", "cal", "a.ics", "X")], [("put", "cal", "a.ics", "X"), ("put", "cal", "b.ics", "Z")]],
        "ops": [("put", "cal", "a.ics", "X2"), ("put", "cal", "b.ics", "Z"), ("delete", "cal", "a.ics"), ("proppatch", "cal", "displayname", "d1")],
    }
    return e1common.run_configs("C08", tier, configs(tier), depth_of, workers=workers, seeds=seeds, assumptions=ASSUME + [
        "fault phase: every single placement of an ENOSPC failure on a mutating file-system call of a write; a request that then fails must not change the tag",
    ], post=post, faults=faults)
