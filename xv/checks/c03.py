"""C03 - conditional requests are honoured and have no effect when they fail.

Grid: resource states x header values x {If-Match, If-None-Match} x
{PUT, DELETE, GET, HEAD} x front ends x back ends, each case on a fresh world
rebuilt from the state's history, with a twin world (same history, same
request without the conditional header) as the oracle for "is executed".
Plus the etag arguments of import_one/delete_one on the four stores (E1).
"""

import multiprocessing as mp

from ..core import bodies as B
from ..core import dav, davsys, storesys
from ..core.davsys import Config, DavSys
from ..core.report import Reporter
from . import e1common

# resource states: history -> (description)
STATES = {
    "absent": [("put", "cal", "b.ics", "Z")],
    "present": [("put", "cal", "a.ics", "X"), ("put", "cal", "b.ics", "Z")],
    "rewritten": [("put", "cal", "a.ics", "X"), ("put", "cal", "a.ics", "X2"), ("put", "cal", "b.ics", "Z")],
    "recreated": [("put", "cal", "a.ics", "X2"), ("delete", "cal", "a.ics"), ("put", "cal", "a.ics", "X"), ("put", "cal", "b.ics", "Z")],
}

# value specs -> (builder(cur, stale, other), well-formed?)
VALUES = ["current", "stale", "other", "star", "list-with-current", "list-without-current", "list-spaces", "unquoted-current", "garbage", "empty-quotes", "empty", "blank"]


def header_value(spec, cur, stale, other):
    c = cur or '"1111111111111111111111111111111111111111"'
    if spec == "current":
        return c
    if spec == "stale":
        return stale
    if spec == "other":
        return other
    if spec == "star":
        return "*"
    if spec == "list-with-current":
        return "%s, %s" % (stale, c)
    if spec == "list-without-current":
        return "%s, %s" % (stale, other)
    if spec == "list-spaces":
        return "  %s ,   %s  " % (other, c)
    if spec == "unquoted-current":
        return c.strip('"')
    if spec == "garbage":
        return "xyzzy"
    if spec == "empty":
        return ""
    if spec == "blank":
        return "  "
    if spec == "empty-quotes":
        return '""'
    raise ValueError(spec)


def matches(spec, exists):
    """Does the header value match the current representation (RFC 7232 strong comparison)?  None = undefined by the property."""
    if spec in ("unquoted-current", "garbage", "empty-quotes", "empty", "blank"):
        # a header that is present but lists no entity tag matches nothing
        return None if spec == "unquoted-current" else False
    if not exists:
        return False
    if spec == "star":
        return True
    return spec in ("current", "list-with-current", "list-spaces")


# PUT-same uploads exactly the bytes the server currently serves (a no-op rewrite), PUT-reordered the same object with
# its properties in another order: shortcuts for "unchanged" uploads must not bypass the preconditions
CASES = [("PUT", "If-Match"), ("PUT", "If-None-Match"), ("PUT-same", "If-Match"), ("PUT-same", "If-None-Match"), ("DELETE", "If-Match"), ("GET", "If-None-Match"), ("HEAD", "If-None-Match")]


def _one_group(args):
    """All cases for one (config, state)."""
    cfg, sname = args
    hist = STATES[sname]
    vios = {}
    stats = {"cases": 0, "executed": 0, "refused": 0, "not_modified": 0, "worlds": 0, "requests": 0, "nontrivial": set()}

    def vio(what, summary, detail):
        sig = "C03|%s|%s" % (cfg.label, what)
        e = vios.get(sig)
        if e is None:
            vios[sig] = {"summary": summary, "witness": {"config": cfg.label, "state": sname, "history": [list(h) for h in hist], "detail": detail}, "count": 1}
        else:
            e["count"] += 1

    def build():
        s = DavSys(cfg)
        s.replay(hist)
        stats["worlds"] += 1
        return s

    s = None
    twin = None
    try:
        for (mcase, header) in CASES:
            method = "PUT" if mcase.startswith("PUT") else mcase
            for spec in VALUES:
                if s is None:
                    s = build()
                a0 = s.last_audit
                g = a0["cal"]["get"].get("a.ics")
                exists = bool(g and g[0] == 200)
                cur = g[1] if exists else None
                stale = '"%s"' % storesys.stored_etag("X2" if sname != "rewritten" else "X")
                if sname == "recreated":
                    stale = '"%s"' % storesys.stored_etag("X2")
                other = a0["cal"]["get"]["b.ics"][1]
                hv = header_value(spec, cur, stale, other)
                url = s.url("cal", "a.ics")
                body = B.ALL_BODIES["X2"] if method == "PUT" else b""
                if mcase == "PUT-same":
                    if not exists:
                        continue
                    body = a0["cal"]["bodies"]["a.ics"]
                hdrs = {header: hv}
                if method == "PUT":
                    hdrs["Content-Type"] = B.CT_ICS
                r = s.req(method, url, hdrs, body)
                st = dav.effective_status(r)
                a1 = s.audit()
                stats["cases"] += 1
                changed = DavSys.observable(a0["cal"]) != DavSys.observable(a1["cal"]) or DavSys.observable(a0["ab"]) != DavSys.observable(a1["ab"])
                m = matches(spec, exists)
                case = {"method": mcase, "header": header, "value_kind": spec, "value": hv, "status": st, "exists": exists}
                stats["nontrivial"].add((mcase, header, spec, exists, st))
                method_label = mcase
                if r.status >= 500 or r.exc:
                    vio("server-error:%s:%s:%s" % (method, header, spec), "conditional request answered %s (%s)" % (r.status, r.exc), case)
                if method in ("GET", "HEAD"):
                    if changed:
                        vio("read-changed-state:%s" % method, "a conditional %s changed state" % method, case)
                    if m is True:
                        if st != 304:
                            vio("no-304:%s:%s" % (method, spec), "%s with matching If-None-Match answered %s, expected 304" % (method, st), case)
                        elif r.body:
                            vio("304-with-body:%s" % method, "304 carried a body", case)
                        else:
                            stats["not_modified"] += 1
                    elif m is False:
                        want = 200 if exists else 404
                        if st != want:
                            vio("wrong-status:%s:%s:%s" % (method, spec, st), "%s with non-matching If-None-Match answered %s, expected %s" % (method, st, want), case)
                        if st == 200 and method == "GET" and r.body != a0["cal"]["bodies"]["a.ics"]:
                            vio("body-differs:%s" % spec, "conditional GET served different bytes", case)
                    if changed:
                        s.close()
                        s = None
                    continue
                # PUT / DELETE
                if header == "If-Match":
                    cond = m
                else:
                    # If-None-Match: executed iff nothing matches
                    cond = None if m is None else (not m)
                    if spec == "star":
                        cond = not exists
                if cond is False:
                    ok_refusal = st == 412 or (method == "DELETE" and not exists and st == 404)
                    if not ok_refusal:
                        vio("not-412:%s:%s:%s:%s:got%s" % (mcase, header, spec, "exists" if exists else "absent", st), "%s with failing %s (%s) answered %s, expected 412" % (method, header, spec, st), case)
                    else:
                        stats["refused"] += 1
                    if changed:
                        vio("failed-precondition-changed-state:%s:%s:%s:%s" % (mcase, header, spec, "exists" if exists else "absent"), "%s whose %s precondition failed changed the collection" % (method, header), case)
                else:
                    # condition true (or undefined): must be 412+unchanged only if undefined; else same as header-less twin
                    if cond is None and st == 412 and not changed:
                        stats["refused"] += 1
                    else:
                        if twin is None:
                            twin = build()
                        hd2 = dict(hdrs)
                        hd2.pop(header)
                        r2 = twin.req(method, url, hd2, body)
                        st2 = dav.effective_status(r2)
                        b1 = twin.audit()
                        if (st, DavSys.observable(a1["cal"])) != (st2, DavSys.observable(b1["cal"])):
                            vio("differs-from-unconditional:%s:%s:%s:%s" % (mcase, header, spec, "exists" if exists else "absent"),
                                "%s with satisfied %s answered %s, the same request without the header answers %s (or the resulting states differ)" % (method, header, st, st2), case)
                        else:
                            stats["executed"] += 1
                        twin.close()
                        twin = None
                if changed or st not in (412, 404):
                    s.close()
                    s = None
    finally:
        for x in (s, twin):
            if x is not None:
                stats["requests"] += x.nreq
                x.close()
    stats["nontrivial"] = sorted(stats["nontrivial"])
    return vios, stats


def _sibling_job(args):
    """A create-only PUT (If-None-Match: *) aimed at a name that is ANOTHER spelling of an existing member's name.

    The two spellings are different resources (different byte strings after percent-decoding): whatever the server answers,
    the existing member must keep its content and ETag, a 2xx answer must make the new URL serve the upload, and a
    conditional update of the existing member with its old ETag must still work.
    """
    cfg, (label, existing, other) = args
    vios = {}
    stats = {"cases": 0}

    def vio(what, summary, detail):
        sig = "C03|%s|%s" % (cfg.label, what)
        vios.setdefault(sig, {"summary": summary, "witness": dict(detail, config=cfg.label), "count": 0})["count"] += 1

    for coll, ext, b1, b2, ct in (("cal", ".ics", B.ALL_BODIES["X"], B.ALL_BODIES["Z"], B.CT_ICS), ("ab", ".vcf", B.ALL_BODIES["K"], B.ALL_BODIES["L"], B.CT_VCF)):
        s = DavSys(cfg)
        try:
            s.replay([])
            u1, u2 = s.url(coll, existing + ext), s.url(coll, other + ext)
            r0 = s.req("PUT", u1, {"Content-Type": ct}, b1)
            if dav.effective_status(r0) not in (200, 201, 204):
                continue
            g0 = s.req("GET", u1)
            stats["cases"] += 1
            r = s.req("PUT", u2, {"Content-Type": ct, "If-None-Match": "*"}, b2)
            st = dav.effective_status(r)
            g1 = s.req("GET", u1)
            case = {"existing": existing + ext, "request": other + ext, "status": st, "collection": coll}
            if g1.status != 200 or g1.headers.get("etag") != g0.headers.get("etag") or g1.body != g0.body:
                vio("create-only-put-to-another-spelling-changed-the-existing-member:%s" % label, "PUT %r with If-None-Match: * answered %s and the existing member %r now answers %s with ETag %s (was %s)" % (other + ext, st, existing + ext, g1.status, g1.headers.get("etag"), g0.headers.get("etag")), case)
            if st in (200, 201, 204):
                g2 = s.req("GET", u2)
                if g2.status != 200:
                    vio("create-only-put-acknowledged-but-url-missing:%s" % label, "PUT %r answered %s but GET of the same URL answers %s" % (other + ext, st, g2.status), case)
        finally:
            s.close()
    return vios, stats


SPELLINGS = [("nfc-vs-nfd", "caf\u00e9", "cafe\u0301"), ("nfd-vs-nfc", "cafe\u0301", "caf\u00e9"), ("case", "meeting", "Meeting"), ("trailing-dot", "note", "note."), ("fullwidth", "a1", "a\uff11")]


def run(tier, workers=None):
    rep = Reporter("C03", tier)
    storesys.compute_stored_forms(["X", "X2", "Z"])
    cfgs = [
        Config(front="wsgi", backend="tree", prefix="/", names={"cal": ["a.ics", "b.ics"], "ab": [], "c2": []}, features=set()),
        Config(front="aio", backend="tree", prefix="/dav/", names={"cal": ["a.ics", "b.ics"], "ab": [], "c2": []}, features=set()),
    ]
    if tier == "thorough":
        cfgs += [
            Config(front="wsgi", backend="bare", prefix="/dav/", names={"cal": ["a.ics", "b.ics"], "ab": [], "c2": []}, features=set()),
            Config(front="aio", backend="bare", prefix="/", names={"cal": ["a.ics", "b.ics"], "ab": [], "c2": []}, features=set()),
        ]
    jobs = [(c, s) for c in cfgs for s in STATES]
    ctx = mp.get_context("fork")
    with ctx.Pool(workers or 16) as pool:
        results = pool.map(_one_group, jobs, chunksize=1)
    tot = {"cases": 0, "executed": 0, "refused": 0, "not_modified": 0, "worlds": 0}
    nontrivial = set()
    for vios, stats in results:
        rep.merge(vios)
        for k in tot:
            tot[k] += stats[k]
        nontrivial |= {tuple(x) for x in stats["nontrivial"]}
    # store level: E1 exploration with etag arguments on all four back ends + twin differential
    from ..core import explore

    scfg = e1common.StoreCfg(kinds=("tree", "bare", "mem", "vdir"), names=("a.ics", "b.ics"), bodies=("X", "X2", "Z"), oracles={"C03"}, features={"etagargs", "restart"})
    res = explore.explore(scfg.make, max_depth=3 if tier == "quick" else 4, workers=workers, max_states=4000, budget_s=None if tier == "quick" else 180)
    for e in res.errors:
        rep.harness_error(e[:1500])
    for sig, e in res.violations.items():
        if sig.startswith("C03|"):
            rep.violation(sig, e["summary"], e["witness"])
    twins = 0
    seen_twin = set()
    for o in res.observations:
        if o[0] != "twin":
            continue
        _, k, hist, op, resc, snap = o
        key = (k, repr(hist), repr(op))
        if key in seen_twin:
            continue
        seen_twin.add(key)
        # replay on a fresh lock-step system restricted to this back end, then the same op without etag
        s2 = storesys.StoreSys(kinds=(k,), names=("a.ics", "b.ics"), bodies=("X", "X2", "Z"))
        try:
            s2.replay(hist)
            op2 = list(op)
            if op2[0] == "put":
                op2[3] = None
            else:
                op2[2] = None
            info = s2.apply(tuple(op2), check=False)
            twins += 1
            if info["results"][k] != resc or s2.snapshot(s2.last[k]) != tuple(snap):
                rep.violation("C03|store:%s|differs-from-unconditional:%s" % (k, op[0]), "store op with matching etag argument behaves differently from the same op without it", {"backend": k, "history": hist, "op": op})
        finally:
            s2.close()
    sjobs = [(c, sp) for c in cfgs[:2] for sp in SPELLINGS]
    with mp.get_context("fork").Pool(min(len(sjobs), workers or 16)) as pool:
        sres = pool.map(_sibling_job, sjobs, chunksize=1)
    sibling_cases = 0
    for svios, sstats in sres:
        rep.merge(svios)
        sibling_cases += sstats["cases"]
    # E5: a conditional request whose condition is checked, after which another client's write is handled at one of the
    # request's suspension points (body still arriving, member being loaded/updated in a thread): the outcome must be
    # what one of the two orders gives - a condition that held at the head of the request does not license the write
    from . import c05

    ojobs = [(r, w, "C03") for (r, w) in (("put-c-if-none-match-star", "put-c"), ("put-a-if-match", "put-a-other"), ("put-a-if-match", "delete-a"), ("put-a-if-none-match-etag", "delete-a"),
                                          ("delete-a-if-match", "put-a-other"), ("put-a-if-none-match-etag", "put-a-other"), ("put-a-if-match-star", "delete-a"))]
    with mp.get_context("fork").Pool(len(ojobs)) as pool:
        ores = pool.map(c05._http_overlap_job, ojobs, chunksize=1)
    placements = 0
    for ovios, ostats in ores:
        rep.merge(ovios)
        placements += ostats["cases"]
    if placements == 0:
        rep.harness_error("overlap phase: no suspension point was found in any conditional request")
    cov = {
        "sibling_spellings": {"pairs": [x[0] for x in SPELLINGS], "cases": sibling_cases},
        "overlap_phase": {"pairs": [list(j[:2]) for j in ojobs], "placements_of_a_write_inside_a_conditional_request": placements},
        "states": res.states + len(jobs),
        "transitions": res.transitions + tot["cases"],
        "traces_validated_against_impl": tot["worlds"] + res.replays + twins,
        "http_cases": tot["cases"],
        "http_cases_executed_and_matched_twin": tot["executed"],
        "http_cases_refused_412": tot["refused"],
        "http_304": tot["not_modified"],
        "distinct_case_outcomes": len(nontrivial),
        "store_level": {"states": res.states, "transitions": res.transitions, "twin_replays": twins, "outcomes": res.outcomes, "fixpoint": res.fixpoint, "caps": res.caps},
        "samples": [list(x) for x in sorted(nontrivial)[:12]],
        "grid": {"resource_states": list(STATES), "values": VALUES, "cases": CASES, "configs": [c.label for c in cfgs]},
        "exhaustive": True,
        "rule": "full product resource-state x header x value-kind x method x config; each case on a fresh world rebuilt from the state's history; condition-true cases compared with a twin world receiving the header-less request",
    }
    return rep.finish("model_checking", cov, assumptions=[
        "RFC 7232 strong comparison; W/ weak validators are not generated (xandikos never emits them)",
        "unquoted values: only 'no effect unless identical to the header-less request' is required, the status is not defined by the property",
        "DELETE of an absent resource with If-Match may answer 404 or 412",
        "sibling spellings: create-only PUTs to names that differ from an existing member only by Unicode normalisation form, letter case, a trailing dot or a full-width digit (different resources)",
        "overlap phase (E5): single-process server; suspension points = reading the request body and every to_thread call; the other request runs to completion there; allowed outcomes = the two sequential orders",
    ])
