"""C18 - service discovery leads to the user's collections in every deployment layout.

Exhaustive configuration grid: route prefix x principal path x
{autocreate, defaults} x front end x restart count x user data.  For every
configuration a client walk is performed using only hrefs the server returned.
"""

import importlib
import itertools
import multiprocessing as mp
import os
import shutil
import subprocess
import sys
import urllib.parse

from ..core import bodies as B
from ..core import dav, env, http
from ..core.davsys import _run_git
from ..core.report import Reporter

PREFIXES = ["/", "/dav/", "/a/b/"]
PRINCIPALS = ["/user/", "/user", "/p/alice/"]
MODES = ["autocreate", "defaults"]
FRONTS = ["proc", "simple", "wsgimod"]

P_CUP = "{DAV:}current-user-principal"
P_CALHOME = "{%s}calendar-home-set" % dav.CAL
P_ABHOME = "{%s}addressbook-home-set" % dav.CARD


class SimpleServerWorld:
    """xandikos.web.run_simple_server() in a child process (it installs signal handlers)."""

    def __init__(self, root, prefix, principal, autocreate, defaults):
        self.args = (root, prefix, principal, autocreate, defaults)
        self.proc = None
        self.start()

    def start(self):
        root, prefix, principal, autocreate, defaults = self.args
        self.sock = http._new_sockpath()
        code = ("import logging,sys; logging.disable(logging.CRITICAL)\n"
                "from xandikos.web import run_simple_server\n"
                "run_simple_server(%r, %r, autocreate=%r, defaults=%r, route_prefix=%r, listen_address=None, port=None, socket_path=%r)\n" % (root, principal, autocreate, defaults, prefix, self.sock))
        self.errlog = self.sock + ".err"
        self.proc = subprocess.Popen([sys.executable, "-W", "ignore", "-c", code], stdout=subprocess.DEVNULL, stderr=open(self.errlog, "wb"), cwd=env.scratch())
        if not http._wait_socket(self.sock, proc=self.proc):
            err = open(self.errlog).read()[-1500:]
            self.stop()
            raise RuntimeError("run_simple_server failed to start: " + err)

    def stop(self):
        if self.proc is not None:
            if self.proc.poll() is None:
                self.proc.terminate()
                try:
                    self.proc.wait(5)
                except subprocess.TimeoutExpired:
                    self.proc.kill()
                    self.proc.wait()
            self.proc = None
        for p in (self.sock, self.errlog):
            try:
                os.unlink(p)
            except OSError:
                pass

    def restart(self):
        self.stop()
        self.start()

    def close(self):
        self.stop()

    def request(self, method, target, headers=None, body=b""):
        return http.socket_request(self.sock, method, target, headers, body)


class WsgiModuleWorld:
    """The xandikos.wsgi module (configured through environment variables) behind WellknownRedirector."""

    def __init__(self, root, prefix, principal, autocreate, defaults):
        self.root, self.prefix, self.principal = root, prefix, principal
        self.mode = "defaults" if defaults else ("empty" if autocreate else "no")
        self.start()

    def start(self):
        os.environ["XANDIKOSPATH"] = self.root
        os.environ["CURRENT_USER_PRINCIPAL"] = self.principal
        os.environ["AUTOCREATE"] = self.mode
        http.install_store_registry()
        import xandikos.wsgi as w

        w = importlib.reload(w)
        from xandikos.wsgi_helpers import WellknownRedirector

        self.inner = http.WsgiWorld.__new__(http.WsgiWorld)
        self.inner.root = self.root
        self.inner.prefix = self.prefix
        self.inner.principal = self.principal
        self.inner.app = WellknownRedirector(w.app, self.prefix)
        self.inner.backend = w.backend

    def restart(self):
        http.clear_store_caches()
        self.start()

    def close(self):
        http.clear_store_caches()

    def request(self, method, target, headers=None, body=b""):
        # the redirector sits in front of the mount point: well-known paths arrive with SCRIPT_NAME ''
        p = urllib.parse.urlsplit(target).path
        if p.startswith("/.well-known/"):
            saved = self.inner.prefix
            self.inner.prefix = "/"
            try:
                return self.inner.request(method, target, headers, body)
            finally:
                self.inner.prefix = saved
        return self.inner.request(method, target, headers, body)


def propfind(w, target, props, depth="0"):
    r = w.request("PROPFIND", target, dict(dav.XML_CT, Depth=depth), dav.propfind_body(props))
    if r.status != 207:
        return r, None
    ms = dav.parse_multistatus(r.body)
    if ms.parse_error:
        return r, None
    return r, ms


def hrefs_of(msresp, tag):
    el = msresp.prop_el(tag)
    if el is None:
        return []
    return [h.text or "" for h in el.iter("{DAV:}href")]


def walk(w, prefix, start):
    """Client discovery using only returned hrefs. Returns (dict, None) or (None, failure-step)."""
    out = {"steps": []}
    ctx = prefix
    if start.startswith("/.well-known/"):
        r = w.request("PROPFIND", start, dict(dav.XML_CT, Depth="0"), dav.propfind_body([P_CUP]))
        if r.status not in (301, 302, 303, 307, 308) or not r.headers.get("location"):
            return None, "well-known-not-redirecting:%s" % r.status
        ctx = dav.resolve_href(start, r.headers["location"])
        out["steps"].append(("well-known", start, ctx))
    r, ms = propfind(w, ctx, [P_CUP])
    if ms is None or not ms.responses:
        return None, "context-propfind-failed:%s" % r.status
    cups = hrefs_of(ms.responses[0], P_CUP)
    if not cups:
        return None, "no-current-user-principal"
    principal = dav.resolve_href(ctx, cups[0])
    out["steps"].append(("current-user-principal", cups[0], principal))
    r, ms = propfind(w, principal, [P_CALHOME, P_ABHOME, dav.P_RESOURCETYPE])
    if ms is None or not ms.responses or ms.responses[0].status not in (None, 200):
        return None, "principal-propfind-failed:%s" % r.status
    rt = dav.resourcetypes(ms.responses[0]) or frozenset()
    if "{DAV:}principal" not in rt:
        return None, "principal-href-is-not-a-principal"
    homes = {}
    for key, tag in (("calendar", P_CALHOME), ("addressbook", P_ABHOME)):
        hs = hrefs_of(ms.responses[0], tag)
        if not hs:
            return None, "no-%s-home-set" % key
        homes[key] = dav.resolve_href(principal, hs[0])
        out["steps"].append((key + "-home-set", hs[0], homes[key]))
    found = {"calendar": [], "addressbook": []}
    for key, home in homes.items():
        r, ms = propfind(w, home, [dav.P_RESOURCETYPE], depth="1")
        if ms is None:
            return None, "%s-home-set-propfind-failed:%s" % (key, r.status)
        for x in ms.responses:
            t = dav.resourcetypes(x) or frozenset()
            if any(tt.endswith("}" + key) for tt in t):
                # (compared as decoded paths: a server may percent-encode more than it has to)
                found[key].append(urllib.parse.unquote(dav.resolve_href(home, x.href or "")))
    out["homes"] = homes
    out["found"] = found
    return out, None


def commit_counts(root):
    out = {}
    for dp, dns, fns in os.walk(root):
        if ".git" in dns:
            rc, o, e = _run_git(dp, "rev-list", "--count", "HEAD")
            out[os.path.relpath(dp, root)] = o.decode().strip() if rc == 0 else "?"
            dns.remove(".git")
    return out


def _config(args):
    prefix, principal, mode, front, restarts, data = args
    label = "%s|%s|%s|%s|restarts=%d|data=%s" % (prefix, principal, mode, front, restarts, data)
    vios = {}
    stats = {"walks": 0, "requests": 0, "outcome": None}

    def vio(what, summary, detail=None):
        sig = "C18|%s" % what
        e = vios.get(sig)
        if e is None:
            vios[sig] = {"summary": summary, "witness": dict(detail or {}, configuration=label), "count": 1}
        else:
            e["count"] += 1

    root = os.path.join(env.fresh_dir("c18"), "data")
    autocreate, defaults = True, mode == "defaults"
    w = None
    try:
        try:
            if front == "proc":
                w = http.ProcWorld(root, prefix=prefix, principal=principal, autocreate=(mode == "autocreate"), defaults=defaults)
            elif front == "simple":
                w = SimpleServerWorld(root, prefix, principal, autocreate, defaults)
            else:
                w = WsgiModuleWorld(root, prefix, principal, autocreate, defaults)
        except Exception as e:
            vio("server-does-not-start:%s:%s" % (front, mode), "first start failed: %s" % str(e)[-300:], {})
            stats["outcome"] = "no-start"
            return vios, stats, label
        starts = ["/.well-known/caldav", "/.well-known/carddav", prefix]
        written = {}
        for phase in range(restarts + 1):
            if phase > 0:
                before = commit_counts(root)
                try:
                    if phase >= 2 and front in ("proc", "simple"):
                        # an administrator who passed --defaults/--autocreate only on the first start: later starts without them
                        if front == "proc":
                            w.kw["autocreate"] = False
                            w.kw["defaults"] = False
                        else:
                            w.args = w.args[:3] + (False, False)
                    w.restart()
                except Exception as e:
                    vio("server-does-not-restart:%s:%s" % (front, mode), "restart %d failed: %s" % (phase, str(e)[-300:]), {})
                    break
                after = commit_counts(root)
                if before != after:
                    vio("restart-adds-commits:%s" % mode, "a restart changed commit counts %s -> %s" % (before, after), {})
            for st in starts:
                res, fail = walk(w, prefix, st)
                stats["walks"] += 1
                via = "well-known" if st.startswith("/.well-known") else "root"
                if fail:
                    vio("walk-fails:%s:%s:%s" % (via, fail, "first-start" if phase == 0 else "after-restart"), "discovery from %s failed at %s" % (st, fail), {"start": st})
                    continue
                if mode == "defaults" or written:
                    for key in ("calendar", "addressbook"):
                        if not res["found"][key]:
                            vio("no-%s-found:%s:%s" % (key, mode, "first-start" if phase == 0 else "after-restart"), "the walk from %s reached no %s collection (home set %s)" % (st, key, res["homes"][key]), {"steps": res["steps"]})
                last = res
            if phase == 0 and not fail:
                # autocreate only: the client creates its collections in the home sets it was given
                if mode == "autocreate":
                    calurl = last["homes"]["calendar"].rstrip("/") + "/mycal/"
                    aburl = last["homes"]["addressbook"].rstrip("/") + "/myab/"
                    r1 = w.request("MKCALENDAR", calurl)
                    r2 = w.request("MKCOL", aburl, dav.XML_CT, dav.mkcol_body(resourcetypes=["{DAV:}collection", "{%s}addressbook" % dav.CARD]))
                    if r1.status != 201 or r2.status != 201:
                        vio("cannot-create-in-home-set:%s/%s" % (r1.status, r2.status), "MKCALENDAR / extended MKCOL inside the advertised home sets answered %s / %s" % (r1.status, r2.status), {"calendar": calurl, "addressbook": aburl})
                    res2, fail2 = walk(w, prefix, prefix)
                    if fail2 or not res2["found"]["calendar"] or not res2["found"]["addressbook"]:
                        vio("created-collections-not-discovered", "collections created in the home sets are not reached by the walk (%s)" % (fail2 or res2["found"]), {})
                    else:
                        last = res2
                if data and last["found"]["calendar"] and last["found"]["addressbook"]:
                    ev = last["found"]["calendar"][0].rstrip("/") + "/ev.ics"
                    cd = last["found"]["addressbook"][0].rstrip("/") + "/card.vcf"
                    r1 = w.request("PUT", ev, {"Content-Type": B.CT_ICS}, B.CAL_BODIES["X"])
                    r2 = w.request("PUT", cd, {"Content-Type": B.CT_VCF}, B.CARD_BODIES["K"])
                    if r1.status not in (200, 201, 204) or r2.status not in (200, 201, 204):
                        vio("cannot-write-to-discovered-collection:%s/%s" % (r1.status, r2.status), "PUT into the discovered collections answered %s / %s" % (r1.status, r2.status), {"event": ev, "card": cd})
                    else:
                        written[ev] = w.request("GET", ev).body
                        written[cd] = w.request("GET", cd).body
                        written["@found"] = last["found"]
                    if data == "stray":
                        # a client that drops an object directly into the home sets, next to the collections
                        sv = last["homes"]["calendar"].rstrip("/") + "/stray.ics"
                        sc_ = last["homes"]["addressbook"].rstrip("/") + "/stray.vcf"
                        w.request("PUT", sv, {"Content-Type": B.CT_ICS}, B.CAL_BODIES["Z"])
                        w.request("PUT", sc_, {"Content-Type": B.CT_VCF}, B.CARD_BODIES["L"])
                        for st2 in starts:
                            res3, fail3 = walk(w, prefix, st2)
                            stats["walks"] += 1
                            if fail3 or not res3["found"]["calendar"] or not res3["found"]["addressbook"]:
                                vio("collections-hidden-by-object-in-home-set:%s" % mode, "after an object was stored directly in the home sets the walk from %s no longer reaches the collections (%s)" % (st2, fail3 or res3["found"]), {})
                                break
                    if data == "client-props":
                        # a client that keeps its own settings on ONE of two sibling calendars (order, colour, name), as
                        # calendar applications do; the other calendar has none of them
                        wk = last["homes"]["calendar"].rstrip("/") + "/work/"
                        r1 = w.request("MKCALENDAR", wk)
                        r2 = w.request("PROPPATCH", wk, dav.XML_CT, dav.proppatch_body(sets=[(dav.P_CALORDER, "2"), (dav.P_CALCOLOR, "#ff0000"), (dav.P_DISPLAYNAME, "Work")]))
                        for st2 in starts:
                            res3, fail3 = walk(w, prefix, st2)
                            stats["walks"] += 1
                            if r1.status != 201 or fail3 or wk not in res3["found"]["calendar"] or len(res3["found"]["calendar"]) < 2:
                                vio("calendars-not-discovered-after-client-properties:%s" % mode, "after calendar-order / colour / name were set on one of two calendars (MKCALENDAR %s, PROPPATCH %s) the walk from %s gives %s" % (r1.status, r2.status, st2, fail3 or res3["found"]), {"calendar": wk})
                                break
                        written["@found"] = res3["found"] if not fail3 else written.get("@found", last["found"])
                    if data == "symlinked":
                        # an administrator keeps a calendar and an address book elsewhere under the data directory and links
                        # them into the home sets (sharing between users, another volume)
                        sh = last["homes"]["calendar"].rstrip("/") + "/real-cal/"
                        sb = last["homes"]["addressbook"].rstrip("/") + "/real-ab/"
                        r1 = w.request("MKCALENDAR", sh)
                        r2 = w.request("MKCOL", sb, dav.XML_CT, dav.mkcol_body(resourcetypes=["{DAV:}collection", "{%s}addressbook" % dav.CARD]))

                        def fs(url):
                            rel = url[len(prefix.rstrip("/")):] if prefix != "/" and url.startswith(prefix.rstrip("/")) else url
                            return os.path.join(root, rel.strip("/"))

                        ok_links = False
                        try:
                            os.symlink(fs(sh), os.path.join(os.path.dirname(fs(sh)), "linked-cal"))
                            os.symlink(fs(sb), os.path.join(os.path.dirname(fs(sb)), "linked-ab"))
                            ok_links = True
                        except OSError:
                            pass
                        if ok_links and r1.status == 201 and r2.status == 201:
                            lc = last["homes"]["calendar"].rstrip("/") + "/linked-cal/"
                            lb = last["homes"]["addressbook"].rstrip("/") + "/linked-ab/"
                            for st2 in starts:
                                res3, fail3 = walk(w, prefix, st2)
                                stats["walks"] += 1
                                if fail3 or lc not in res3["found"]["calendar"] or lb not in res3["found"]["addressbook"]:
                                    vio("linked-collections-not-discovered:%s" % mode, "a calendar / address book linked into the home sets with a symbolic link is not reached by the walk from %s: %s" % (st2, fail3 or res3["found"]), {"calendar": lc, "addressbook": lb})
                                    break
                    if data == "retyped":
                        # a path in the home set that was a plain collection, was looked at, was deleted, and is now a calendar / address book
                        wk = last["homes"]["calendar"].rstrip("/") + "/work/"
                        fr_ = last["homes"]["addressbook"].rstrip("/") + "/friends/"
                        w.request("MKCOL", wk)
                        w.request("MKCOL", fr_)
                        walk(w, prefix, prefix)
                        w.request("DELETE", wk)
                        w.request("DELETE", fr_)
                        r1 = w.request("MKCALENDAR", wk)
                        r2 = w.request("MKCOL", fr_, dav.XML_CT, dav.mkcol_body(resourcetypes=["{DAV:}collection", "{%s}addressbook" % dav.CARD]))
                        for st2 in starts:
                            res3, fail3 = walk(w, prefix, st2)
                            stats["walks"] += 1
                            if r1.status != 201 or r2.status != 201 or fail3 or wk not in res3["found"]["calendar"] or fr_ not in res3["found"]["addressbook"]:
                                vio("recreated-collection-not-discovered:%s" % mode, "a calendar / address book made at a path that earlier held a plain collection (MKCALENDAR %s, MKCOL %s) is not reached by the walk from %s: %s" % (r1.status, r2.status, st2, fail3 or res3["found"]), {"calendar": wk, "addressbook": fr_})
                                break
            elif written:
                for url, body in written.items():
                    if url.startswith("@"):
                        continue
                    g = w.request("GET", url)
                    if g.status != 200 or g.body != body:
                        vio("data-lost-after-restart:%s" % mode, "GET %s after restart %d answers %s (%s)" % (url, phase, g.status, "different bytes" if g.status == 200 else "missing"), {"url": url})
                if not fail and set(written["@found"]["calendar"]) - set(last["found"]["calendar"]):
                    vio("collection-lost-after-restart:%s" % mode, "a calendar discovered before the restart is no longer reached", {"before": written["@found"], "after": last["found"]})
        stats["outcome"] = "ok" if not vios else "violations"
    finally:
        if w is not None:
            w.close()
        shutil.rmtree(os.path.dirname(root), ignore_errors=True)
    return vios, stats, label


def run(tier, workers=None):
    rep = Reporter("C18", tier)
    nw = workers or 16
    if tier == "quick":
        grid = [(p, u, m, "proc", 1, True) for p in PREFIXES for u in PRINCIPALS for m in MODES]
        grid += [(p, u, m, "wsgimod", 1, True) for p in PREFIXES[:2] for u in PRINCIPALS for m in MODES]
        grid += [(p, "/user/", "defaults", "simple", 1, True) for p in PREFIXES]
        grid += [("/dav/", u, "defaults", "proc", 2, True) for u in PRINCIPALS]
        grid += [(p, "/user/", m, "proc", 1, "stray") for p in PREFIXES[:2] for m in MODES]
        grid += [(p, "/user/", m, f, 1, "retyped") for p in PREFIXES[:2] for m in MODES for f in ("proc", "wsgimod")]
        grid += [(p, "/user/", m, "proc", 1, "client-props") for p in PREFIXES[:2] for m in MODES]
        grid += [(p, "/user/", m, "proc", 1, "symlinked") for p in PREFIXES[:2] for m in MODES]
    else:
        grid = list(itertools.product(PREFIXES, PRINCIPALS, MODES, FRONTS, [0, 1, 2], [False, True]))
        grid += list(itertools.product(PREFIXES, PRINCIPALS, MODES, FRONTS, [1], ["stray", "retyped", "client-props", "symlinked"]))
    # the wsgi-module front mutates os.environ / reloads a module: keep those configurations in their own processes too
    ctx = mp.get_context("fork")
    with ctx.Pool(nw, maxtasksperchild=8) as pool:
        results = pool.map(_config, grid, chunksize=1)
    walks = 0
    outcomes = {}
    for vios, stats, label in results:
        rep.merge(vios)
        walks += stats["walks"]
        outcomes[stats["outcome"]] = outcomes.get(stats["outcome"], 0) + 1
    cov = {
        "evaluations": len(grid),
        "distinct_nontrivial": len(set(grid)),
        "rule": "one evaluation = one deployment configuration (prefix, principal, mode, front end, restarts, user data), each distinct; every one runs %s discovery walks per start from both well-known URLs and the root" % 3,
        "samples": ["%s|%s|%s|%s|restarts=%d|data=%s" % g for g in (grid[0], grid[len(grid) // 2], grid[-1])],
        "walks": walks, "outcomes": outcomes,
        "grid": {"prefixes": PREFIXES, "principals": PRINCIPALS, "modes": MODES, "fronts": sorted({g[3] for g in grid}), "restarts": sorted({g[4] for g in grid}), "data": sorted({str(g[5]) for g in grid})},
        "exhaustive": True,
    }
    return rep.finish("exploration", cov, assumptions=[
        "fronts: `python -m xandikos` subprocess; run_simple_server() in a child process; the xandikos.wsgi module configured by environment variables behind WellknownRedirector (in-process, module reloaded per start)",
        "a client follows redirects and resolves every href against the URL it was received from (RFC 3986)",
        "the second restart of the subprocess / run_simple_server fronts is done WITHOUT --autocreate/--defaults (flags only given on first start)",
    ])
