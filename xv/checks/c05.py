"""C05 - concurrent writes behave as if executed one after another.

E4: every interleaving of 2-3 real store operations (threads of one process
sharing a Store object, or separate Store objects on one directory = separate
processes) at file-system scheduling points, up to a preemption bound, each
checked against the set of sequential outcomes (brute-force linearizability
with the implementation itself, run sequentially, as the reference).
"""

import hashlib
import itertools
import multiprocessing as mp
import os
import shutil
import threading

from ..core import bodies as B
from ..core import env, http, ical, sched, storesys
from ..core.report import Reporter

X3 = B.ics("uid-1", "alphc")
Z2 = B.ics("uid-2", "zulu2")
C9 = B.ics("uid-9", "nine-c")
D9 = B.ics("uid-9", "nine-d")
D8 = B.ics("uid-8", "eight")
A_AS_UID2 = B.ics("uid-2", "a-takes-uid-2")
C_DUP1 = B.ics("uid-1", "c-dup-of-a")
BODIES = dict(B.ALL_BODIES, X3=X3, Z2=Z2, C9=C9, D9=D9, D8=D8, A2=A_AS_UID2, C1=C_DUP1)

# operations: (kind, name, body-id or None, etag-spec)   etag-spec: None | "EA" | "EB" | "stale"
OPS = {
    "cas-a-X2": ("put", "a.ics", "X2", "EA"),
    "cas-a-X3": ("put", "a.ics", "X3", "EA"),
    "put-a-X2": ("put", "a.ics", "X2", None),
    "put-a-X3": ("put", "a.ics", "X3", None),
    "put-a-stale": ("put", "a.ics", "X2", "stale"),
    "put-b-Z2": ("put", "b.ics", "Z2", None),
    "new-c-uid9": ("put", "c.ics", "C9", None),
    "new-d-uid9": ("put", "d.ics", "D9", None),
    "new-d-uid8": ("put", "d.ics", "D8", None),
    "new-c-dup-of-a": ("put", "c.ics", "C1", None),
    "a-takes-uid-of-b": ("put", "a.ics", "A2", None),
    "del-a": ("delete", "a.ics", None, None),
    "del-a-cas": ("delete", "a.ics", None, "EA"),
    "del-b": ("delete", "b.ics", None, None),
}

PAIRS = [
    ("cas-a-X2", "cas-a-X3"), ("put-a-X2", "put-b-Z2"), ("new-c-uid9", "new-d-uid9"), ("new-c-uid9", "new-d-uid8"),
    ("cas-a-X2", "del-a-cas"), ("del-a", "del-a"), ("put-a-X2", "put-a-X3"), ("del-a", "put-b-Z2"),
    ("new-c-dup-of-a", "del-a"), ("a-takes-uid-of-b", "del-b"), ("del-a-cas", "del-a-cas"), ("put-a-stale", "put-a-X3"),
    ("cas-a-X2", "put-b-Z2"), ("new-c-uid9", "put-a-X2"), ("new-c-uid9", "del-b"),
]
TRIPLES = [("cas-a-X2", "cas-a-X3", "del-a-cas"), ("put-a-X2", "put-b-Z2", "del-a"), ("new-c-uid9", "new-d-uid9", "put-b-Z2")]


def make_template(kind):
    d = env.fresh_dir("c05t")
    path = os.path.join(d, "coll")
    st = storesys.open_store(kind, path, create=True)
    ct = "text/calendar"
    (_, ea) = st.import_one("a.ics", ct, [B.ALL_BODIES["X"]])
    (_, eb) = st.import_one("b.ics", ct, [B.ALL_BODIES["Z"]])
    # a stale etag: what a.ics had in an earlier life
    (_, stale) = st.import_one("tmp.ics", ct, [B.ics("uid-7", "seven")])
    st.delete_one("tmp.ics")
    return d, {"EA": ea, "EB": eb, "stale": stale}


def do_op(store, op, etags):
    kind, name, bid, espec = op
    et = etags.get(espec) if espec else None
    try:
        if kind == "put":
            (n, etag) = store.import_one(name, "text/calendar", [BODIES[bid]], replace_etag=et)
            return ("ok", etag)
        else:
            store.delete_one(name, etag=et)
            return ("ok", None)
    except Exception as e:
        c = storesys.classify_exc(e)
        if c.startswith("EXC:"):
            return (c, str(e)[:80])
        return (c, None)


def final_state(kind, path):
    st = storesys.open_store(kind, path)
    out = {}
    problems = []
    try:
        for (n, ct, et) in st.iter_with_etag():
            try:
                data = b"".join(st.get_file(n, ct, et).content)
                out[n] = hashlib.sha1(data).hexdigest()[:12]
                if storesys.scheme_holds(kind) and storesys.etag_scheme(kind, data) != et:
                    problems.append("etag-mismatch:%s" % n)
            except Exception as e:
                problems.append("unreadable-member:%s:%s" % (n, type(e).__name__))
                out[n] = "!unreadable"
    except Exception as e:
        problems.append("listing-fails:%s" % type(e).__name__)
    uids = {}
    for n in out:
        try:
            u = ical.first_uid(b"".join(st.get_file(n).content))
        except Exception:
            u = None
        if u is not None:
            uids.setdefault(u, []).append(n)
    for u, ns in uids.items():
        if len(ns) > 1:
            problems.append("duplicate-uid")
    # a leaked lock would refuse the next write
    try:
        st.import_one("zz-final.ics", "text/calendar", [B.ics("uid-final", "final")])
    except Exception as e:
        problems.append("write-after-refused:%s" % storesys.classify_exc(e))
    if kind == "tree":
        # working tree, index and HEAD agree
        from ..core.davsys import _run_git

        rc, o, e = _run_git(path, "status", "--porcelain")
        if o.strip():
            problems.append("git-status-dirty")
    return out, problems


def sequential_outcomes(kind, tdir, etags, ops):
    """All (results, final map) of sequential executions of every subset (ops refused as locked drop out)."""
    allowed = {}
    n = len(ops)
    for r in range(n + 1):
        for subset in itertools.combinations(range(n), r):
            outs = set()
            for perm in itertools.permutations(subset):
                d = env.fresh_dir("c05s")
                os.rmdir(d)
                shutil.copytree(tdir, d, symlinks=True)
                path = os.path.join(d, "coll")
                st = storesys.open_store(kind, path)
                res = {}
                for i in perm:
                    res[i] = do_op(st, OPS[ops[i]], etags)
                st = None
                fin, problems = final_state(kind, path)
                outs.add((tuple(res.get(i) for i in range(n)), tuple(sorted(fin.items()))))
                shutil.rmtree(d, ignore_errors=True)
            allowed[frozenset(subset)] = outs
    return allowed


def _scenario(args):
    kind, mode, ops, bound, maxexec = args[:5]
    part = args[5] if len(args) > 5 else None  # (k, n): this job explores the k-th slice of the top-level deviations
    label = "%s/%s/%s" % (kind, mode, "|".join(ops))
    vios = {}
    stats = {"executions": 0, "capped": False, "outcomes": set(), "points_max": 0, "preempt_max": 0, "replay_checked": 0}

    raw = {}  # anomaly -> {"min_p", "summary", "detail", "count"}

    def vio(what, summary, detail):
        p = detail.get("preemptions", 0)
        e = raw.get(what)
        if e is None:
            raw[what] = {"min_p": p, "summary": summary, "detail": detail, "count": 1}
        else:
            e["count"] += 1
            if p < e["min_p"] or (p == e["min_p"] and len(detail.get("schedule", [])) < len(e["detail"].get("schedule", []))):
                e["min_p"] = p
                e["summary"] = summary
                e["detail"] = detail

    def finalize():
        for what, e in raw.items():
            sig = "C05|%s/%s/%s|%s|min-preemptions=%d" % (kind, mode, "|".join(ops), what, e["min_p"])
            vios[sig] = {"summary": e["summary"] + " (fewest preemptions needed: %d)" % e["min_p"], "witness": dict(e["detail"], backend=kind, mode=mode, ops=list(ops)), "count": e["count"]}

    tdir, etags = make_template(kind)
    allowed = sequential_outcomes(kind, tdir, etags, ops)
    line_points = None
    if mode == "threads":
        import xandikos.store as xs

        line_points = sched.shared_state_lines(os.path.dirname(xs.__file__))

    def run_one(prefix):
        d = env.fresh_dir("c05x")
        os.rmdir(d)
        shutil.copytree(tdir, d, symlinks=True)
        path = os.path.join(d, "coll")
        shared = storesys.open_store(kind, path) if mode == "threads" else None
        if mode == "processes-late-open":
            # every writer is a worker process that meets the collection for the first time with this request: the store is
            # opened the way the web layer opens it (uncached), INSIDE the scheduled operation, after the first writer's store
            def late(o, first):
                def body():
                    if first:
                        st = storesys.open_store(kind, path)
                    else:
                        import xandikos.web as web

                        opener = getattr(web.open_store_from_path, "__wrapped__", web.open_store_from_path)
                        st = opener(path)
                    return do_op(st, OPS[o], etags)
                return body
            bodies = [late(o, i == 0) for i, o in enumerate(ops)]
        else:
            stores = [shared or storesys.open_store(kind, path) for _ in ops]
            bodies = [(lambda st=st, o=o: do_op(st, OPS[o], etags)) for st, o in zip(stores, ops)]
        s = sched.Scheduler(path, prefix=prefix, line_points=line_points)
        x = s.run(bodies)
        x.dir = d
        x.path = path
        return x

    def check(x):
        stats["executions"] += 1
        stats["points_max"] = max(stats["points_max"], len(x.points))
        stats["preempt_max"] = max(stats["preempt_max"], x.preemptions)
        results = []
        for (res, exc) in x.results:
            if exc is not None:
                results.append(("EXC:" + type(exc).__name__, str(exc)[:80]))
            else:
                results.append(res)
        fin, problems = final_state(kind, x.path)
        shutil.rmtree(x.dir, ignore_errors=True)
        fin.pop("zz-final.ics", None)
        sched_desc = {"choices": list(x.choices), "preemptions": x.preemptions, "trace": ["t%d %s" % t for t in x.trace]}
        locked = frozenset(i for i, r in enumerate(results) if r[0] == "LockedError")
        others = frozenset(range(len(ops))) - locked
        res_norm = tuple(None if i in locked else results[i] for i in range(len(ops)))
        outcome = (res_norm, tuple(sorted(fin.items())))
        classes = tuple(r[0] if r else "Locked" for r in res_norm)
        stats["outcomes"].add((classes, tuple(sorted(fin))))
        for i, r in enumerate(results):
            if r[0].startswith("EXC:"):
                vio("exception:%s" % r[0][4:], "operation %s ended with an unexpected %s (%s)" % (ops[i], r[0][4:], r[1]), {"results": results, "schedule": sched_desc["trace"], "choices": sched_desc["choices"], "preemptions": x.preemptions})
        for p in problems:
            vio("final-state:%s" % p.split(":")[0], "after the concurrent run: %s" % p, {"results": results, "final": fin, "schedule": sched_desc["trace"], "choices": sched_desc["choices"], "preemptions": x.preemptions})
        if not any(r[0].startswith("EXC:") for r in results) and outcome not in allowed[others]:
            vio("not-serialisable:%s" % "/".join(classes), "results %s with final members %s equal no sequential execution of the operations not refused as locked" % (classes, sorted(fin)),
                {"results": results, "final": fin, "sequential_outcomes": sorted(repr(o) for o in allowed[others])[:6], "schedule": sched_desc["trace"], "choices": sched_desc["choices"], "preemptions": x.preemptions})

    try:
        # determinism: the default schedule twice must give identical traces
        a = run_one([])
        ta = list(a.trace)
        shutil.rmtree(a.dir, ignore_errors=True)
        b = run_one([])
        tb = list(b.trace)
        shutil.rmtree(b.dir, ignore_errors=True)
        stats["replay_checked"] = 1
        if ta != tb:
            return vios, stats, label, "replay of the default schedule diverged: %r vs %r" % (ta[:8], tb[:8])
        # iterative context bounding: bound 0, then 1, ... ; only executions with exactly b preemptions are new at level b
        stats["bound_completed"] = -1
        budget = maxexec
        for b in range(bound + 1):
            def on_exec(x, b=b):
                if x.preemptions == b and (b > 0 or part is None or part[0] == 0):
                    check(x)
                else:
                    shutil.rmtree(x.dir, ignore_errors=True)
            n, capped = sched.explore(run_one, b, max_executions=budget, on_execution=on_exec, part=part)
            if capped:
                stats["capped"] = True
                break
            stats["bound_completed"] = b
        finalize()
    except (sched.Deadlock, sched.ReplayDivergence) as e:
        finalize()
        return vios, stats, label, "%s: %s" % (type(e).__name__, e)
    finally:
        shutil.rmtree(tdir, ignore_errors=True)
    stats["outcomes"] = sorted(stats["outcomes"], key=repr)
    stats["raw"] = raw
    return vios, stats, label, None


def merge_parts(results):
    """Several jobs may explore slices of one scenario: merge them and rebuild the signatures with the overall fewest preemptions."""
    by = {}
    for vios, stats, label, err in results:
        e = by.setdefault(label, {"raw": {}, "stats": {"executions": 0, "capped": False, "outcomes": set(), "points_max": 0, "bound_completed": None}, "errs": []})
        if err:
            e["errs"].append(err)
        st = e["stats"]
        st["executions"] += stats["executions"]
        st["capped"] = st["capped"] or stats["capped"]
        st["outcomes"] |= {repr(o) for o in stats["outcomes"]}
        st["points_max"] = max(st["points_max"], stats["points_max"])
        bc = stats.get("bound_completed", -1)
        st["bound_completed"] = bc if st["bound_completed"] is None else min(st["bound_completed"], bc)
        for what, r in stats.get("raw", {}).items():
            m = e["raw"].get(what)
            if m is None:
                e["raw"][what] = dict(r)
            else:
                m["count"] += r["count"]
                if r["min_p"] < m["min_p"] or (r["min_p"] == m["min_p"] and len(r["detail"].get("schedule", [])) < len(m["detail"].get("schedule", []))):
                    m.update(min_p=r["min_p"], summary=r["summary"], detail=r["detail"])
    out = []
    for label, e in by.items():
        kind, mode, opss = label.split("/", 2)
        vios = {}
        for what, r in e["raw"].items():
            sig = "C05|%s|%s|min-preemptions=%d" % (label, what, r["min_p"])
            vios[sig] = {"summary": r["summary"] + " (fewest preemptions needed: %d)" % r["min_p"], "witness": dict(r["detail"], backend=kind, mode=mode, ops=opss.split("|")), "count": r["count"]}
        out.append((vios, e["stats"], label, "; ".join(e["errs"]) or None))
    return out


def _http_overlap_job(args):
    """E5: request W handled to completion at every suspension point of request R (single-process asyncio server).

    Oracle: (answer of R, answer of W, final members) must be what R;W or W;R give when run one after the other.
    """
    import posixpath
    import urllib.parse

    from ..core import asyncpoints, dav, davsys

    rname, wname = args[:2]
    prop = args[2] if len(args) > 2 else "C05"
    base = davsys.COLL_PATHS["cal"]
    ct = {"Content-Type": B.CT_ICS}
    vios = {}
    stats = {"cases": 0}

    def world():
        root = env.fresh_dir("ho")
        os.rmdir(root)
        shutil.copytree(davsys.template_root("tree"), root, symlinks=True)
        w = http.WsgiWorld(root)
        ea = asyncpoints.run(w.app, ("PUT", base + "a.ics", ct, B.ALL_BODIES["X"]))[0][1].get("etag")
        asyncpoints.run(w.app, ("PUT", base + "b.ics", ct, B.ALL_BODIES["Z"]))
        return w, root, ea

    def reqs(ea):
        R = {"put-a-if-match": ("PUT", base + "a.ics", dict(ct, **{"If-Match": ea}), B.ALL_BODIES["X2"]),
             "put-a": ("PUT", base + "a.ics", ct, B.ALL_BODIES["X2"]),
             # conditional requests: the condition must hold at the moment the request takes effect
             "put-a-if-match-star": ("PUT", base + "a.ics", dict(ct, **{"If-Match": "*"}), B.ALL_BODIES["X2"]),
             "put-c-if-none-match-star": ("PUT", base + "c.ics", dict(ct, **{"If-None-Match": "*"}), B.ics("uid-c1", "by R")),
             "put-a-if-none-match-etag": ("PUT", base + "a.ics", dict(ct, **{"If-None-Match": '"0000000000000000000000000000000000000000"'}), B.ALL_BODIES["X2"]),
             "delete-a-if-match": ("DELETE", base + "a.ics", {"If-Match": ea}, b""),
             "get-a": ("GET", base + "a.ics", {}, b""),
             "multiget-a-b": ("REPORT", base, dict(dav.XML_CT, Depth="1"), dav.multiget_body("calendar", [base + "a.ics", base + "b.ics"], [dav.P_GETETAG, dav.P_CALDATA]))}[rname]
        W = {"put-a-other": ("PUT", base + "a.ics", ct, X3), "put-a-if-match": ("PUT", base + "a.ics", dict(ct, **{"If-Match": ea}), X3), "delete-a": ("DELETE", base + "a.ics", {}, b""),
             "put-c": ("PUT", base + "c.ics", ct, B.ics("uid-c2", "by W")),
             "put-b": ("PUT", base + "b.ics", ct, Z2), "new-c-uid-of-a": ("PUT", base + "c.ics", ct, C_DUP1), "delete-a-if-match": ("DELETE", base + "a.ics", {"If-Match": ea}, b"")}[wname]
        return R, W

    def status(resp):
        if resp is None:
            return None
        code, hd, body = resp
        if code == 207 and b"<ns0:error" in body or code == 207 and b":error>" in body:
            r = http.Resp(code, hd, body)
            return dav.effective_status(r)
        if code in (200, 201, 204):
            return "2xx"  # a PUT that was looked up as an update but lands as a create answers 204 instead of 201: same success
        return code

    def final(app):
        (code, hd, body), _, _, _ = asyncpoints.run(app, ("PROPFIND", base, dict(dav.XML_CT, Depth="1"), dav.propfind_body([dav.P_GETETAG])))
        ms = dav.parse_multistatus(body)
        return tuple(sorted((urllib.parse.unquote(posixpath.basename(x.href)), x.prop_text(dav.P_GETETAG)) for x in ms.responses if x.href and not x.href.endswith("/")))

    def consistent_read(resp):
        """For reads: every (etag, data) pair in the answer must belong together."""
        code, hd, body = resp
        import hashlib

        gid = lambda d: '"%s"' % hashlib.sha1(b"blob %d\x00" % len(d) + d).hexdigest()
        if rname == "get-a":
            return code != 200 or hd.get("etag") == gid(body)
        if code != 207:
            return True
        ms = dav.parse_multistatus(body)
        for x in ms.responses:
            et, d = x.prop_text(dav.P_GETETAG), x.prop_text(dav.P_CALDATA)
            if et and d is not None and et != gid(d.encode("utf-8").replace(b"\n", b"\r\n")) and et != gid(d.encode("utf-8")):
                return False
        return True

    # sequential outcomes
    allowed = set()
    for order in ("RW", "WR"):
        w, root, ea = world()
        try:
            R, W = reqs(ea)
            if order == "RW":
                r1 = asyncpoints.run(w.app, R)[0]
                r2 = asyncpoints.run(w.app, W)[0]
            else:
                r2 = asyncpoints.run(w.app, W)[0]
                r1 = asyncpoints.run(w.app, R)[0]
            allowed.add((status(r1), status(r2), final(w.app)))
        finally:
            w.close()
            shutil.rmtree(root, ignore_errors=True)
    k = 0
    while k < 30:
        w, root, ea = world()
        try:
            R, W = reqs(ea)
            try:
                resp, oresp, n, labels = asyncpoints.run(w.app, R, inject_at=k, other=W)
            except Exception as e:
                sig = "%s|http-overlap|%%s|%%s|exception:%%s" % prop % (rname, wname, type(e).__name__)
                vios.setdefault(sig, {"summary": "%s with %s handled at its suspension point %d ended with an uncaught %s (a 500)" % (rname, wname, k, type(e).__name__), "witness": {"R": rname, "W": wname, "point": k}, "count": 0})["count"] += 1
                k += 1
                continue
            if k >= n:
                break
            stats["cases"] += 1
            out = (status(resp), status(oresp), final(w.app))
            if rname in ("get-a", "multiget-a-b"):
                if not consistent_read(resp):
                    sig = "%s|http-overlap|%%s|%%s|etag-and-data-of-different-versions" % prop % (rname, wname)
                    vios.setdefault(sig, {"summary": "a read that overlapped %s returned an ETag together with the data of another version" % wname, "witness": {"R": rname, "W": wname, "point": k}, "count": 0})["count"] += 1
            elif out not in allowed:
                sig = "%s|http-overlap|%%s|%%s|not-serialisable:%%s/%%s" % prop % (rname, wname, out[0], out[1])
                vios.setdefault(sig, {"summary": "%s overlapped by %s (handled at suspension point %d of %d): answers %s/%s with final members %s equal neither order run sequentially %s" % (rname, wname, k, n, out[0], out[1], [x[0] for x in out[2]], sorted(((a, b) for a, b, c in allowed), key=repr)),
                                      "witness": {"R": rname, "W": wname, "point": k}, "count": 0})["count"] += 1
        finally:
            w.close()
            shutil.rmtree(root, ignore_errors=True)
        k += 1
    return vios, stats


def http_overlap_phase(rep, nw):
    jobs = [(r, w) for r in ("put-a-if-match", "put-a", "get-a", "multiget-a-b") for w in ("put-a-other", "put-a-if-match", "delete-a", "put-b", "new-c-uid-of-a", "delete-a-if-match")]
    jobs += [("put-c-if-none-match-star", "put-c"), ("delete-a-if-match", "put-a-other"), ("put-a-if-match-star", "delete-a"), ("put-a-if-match-star", "put-a-other")]
    with mp.get_context("fork").Pool(nw) as pool:
        results = pool.map(_http_overlap_job, jobs, chunksize=1)
    n = 0
    for vios, stats in results:
        rep.merge(vios)
        n += stats["cases"]
    return {"http_overlap_phase": {"pairs": len(jobs), "placements": n}}


def run(tier, workers=None):
    rep = Reporter("C05", tier)
    nw = workers or 16
    jobs = []
    if tier == "quick":
        for kind in ("tree", "bare"):
            for ops in PAIRS:
                jobs.append((kind, "processes", ops, 1, 400))
        for ops in PAIRS[:6]:
            jobs.append(("tree", "threads", ops, 1, 400))
        # a worker that opens the collection for the first time while another one is writing
        for ops in (PAIRS[1], PAIRS[0], PAIRS[6]):
            jobs.append(("tree", "processes-late-open", ops, 1, 400))
        # two preemptions for the scenarios the property names explicitly (same-ETag updates, different resources, same UID)
        for ops in (PAIRS[0], PAIRS[1], PAIRS[2]):
            jobs.remove(("tree", "processes", ops, 1, 400))
            for k in range(8):
                jobs.append(("tree", "processes", ops, 2, 1200, (k, 8)))
    else:
        for kind in ("tree", "bare"):
            for ops in PAIRS:
                jobs.append((kind, "processes", ops, 3 if kind == "tree" else 2, 1500))
                jobs.append((kind, "threads", ops, 2, 1500))
            for ops in TRIPLES:
                jobs.append((kind, "processes", ops, 2, 1500))
            if kind == "tree":
                # (one preemption: with two, dulwich's GitFile.close() defect - known finding (c) - shows under this mode too; the
                # bare store has no lock an opening worker could disturb)
                for ops in PAIRS:
                    jobs.append((kind, "processes-late-open", ops, 1, 1500))
        for ops in PAIRS[:8]:
            jobs.append(("mem", "threads", ops, 2, 1500))
    ho = http_overlap_phase(rep, nw)
    ctx = mp.get_context("fork")
    with ctx.Pool(nw, maxtasksperchild=4) as pool:
        results = merge_parts(pool.map(_scenario, jobs, chunksize=1))
    tot_exec = 0
    outcomes = 0
    capped = []
    per = []
    samples = []
    for vios, stats, label, err in results:
        rep.merge(vios)
        if err:
            rep.harness_error("%s: %s" % (label, err))
        tot_exec += stats["executions"]
        outcomes += len(stats["outcomes"])
        if stats["capped"]:
            capped.append(label)
        per.append({"scenario": label, "executions": stats["executions"], "distinct_outcomes": len(stats["outcomes"]), "max_points": stats["points_max"], "capped": stats["capped"], "preemption_bound_completed": stats.get("bound_completed")})
    samples = [{"scenario": p["scenario"], "executions": p["executions"], "distinct_outcomes": p["distinct_outcomes"]} for p in per[:4]]
    cov = {
        "states": outcomes,
        "transitions": tot_exec,
        "traces_validated_against_impl": tot_exec,
        "samples": samples,
        "schedules_explored": tot_exec,
        "scenarios": len(per), "jobs": len(jobs),
        "distinct_outcomes_total": outcomes,
        "scenarios_hitting_execution_cap": capped,
        "per_scenario": per,
        "preemption_bounds": sorted({j[3] for j in jobs}),
        "http_overlap_phase": ho["http_overlap_phase"],
        "exhaustive": not capped,
        "rule": "iterative context bounding: all schedules of each scenario with at most k preemptions at file-system (and, in threads mode, shared-attribute line) scheduling points; every execution is the real store code; states = distinct (result classes, final member set) outcomes",
    }
    return rep.finish("model_checking", cov, assumptions=[
        "processes are modelled as separate Store objects on one directory under one scheduler; preemption inside a single system call is not modelled",
        "loose-object reads/writes under objects/ are not scheduling points (immutable, content-addressed)",
        "the sequential reference is the implementation itself run one operation after another on a copy of the same initial store",
    ])
