"""C12 - addressbook-query returns exactly the contacts that match the filter.

E2: filter grammar (anyof/allof x 1-2 prop-filters x {presence, is-not-defined,
text-match x match-type x collation x negate x needle position, param-filter})
x card grid (ASCII / non-ASCII names, multi-valued and parameterised
properties) x nresults, real server vs an independent RFC 6352 evaluator.
"""

import itertools
import multiprocessing as mp
import posixpath
import urllib.parse

from ..core import bodies as B
from ..core import dav, ical, rfc6352 as R
from ..core.davsys import Config, DavSys, nl
from ..core.report import Reporter


def card(uid, lines):
    return ("\r\n".join(["BEGIN:VCARD", "VERSION:3.0", "UID:" + uid] + lines + ["END:VCARD"]) + "\r\n").encode("utf-8")


CARDS = {
    "ascii.vcf": card("k1", ["FN:John Doe", "N:Doe;John;;;", "EMAIL:john@example.com", "TEL;TYPE=WORK,VOICE:+1 555 0100", "NICKNAME:Johnny"]),
    "nonascii.vcf": card("k2", ["FN:Jürgen Müller", "N:Müller;Jürgen;;;", "EMAIL;TYPE=HOME:juergen@example.de"]),
    "multi.vcf": card("k3", ["FN:Multi Mail", "N:Mail;Multi;;;", "EMAIL;TYPE=WORK:work@example.com", "EMAIL;TYPE=HOME:home@example.org"]),
    "bare.vcf": card("k4", ["FN:Bare", "N:Bare;;;;"]),
    "johnson.vcf": card("k6", ["FN:Johnson", "N:Johnson;;;;", "EMAIL: spaced@example.net "]),
    # every EMAIL / TEL of this card carries a group prefix (what address book applications write for custom labels)
    "grouped.vcf": card("k7", ["FN:Grouped Person", "N:Person;Grouped;;;", "item1.EMAIL;TYPE=INTERNET:grouped@example.com", "item1.X-ABLabel:Other", "item2.TEL;TYPE=VOICE:+1 555 0199"]),
    "upper.vcf": card("k5", ["FN:JOHN DOE", "N:DOE;JOHN;;;", "EMAIL:JOHN@EXAMPLE.COM", "NICKNAME:日本"]),
}

FN_NEEDLES = [("John Doe", "whole"), ("john doe", "whole-other-case"), ("John", "prefix"), ("Doe", "suffix"), ("hn D", "infix"), ("zzz", "absent"), ("ü", "non-ascii-infix"), ("Jürgen Müller", "non-ascii-whole"),
              # operands whose first or last character is a blank (white space inside text-match is significant)
              ("John ", "prefix-with-trailing-blank"), (" Doe", "suffix-with-leading-blank"), (" ", "single-blank")]
MATCH_TYPES = [None, "equals", "contains", "starts-with", "ends-with"]
COLLS = [None, "i;ascii-casemap", "i;octet", "i;unicode-casemap"]


def single_filters():
    out = []
    for name in ("FN", "EMAIL", "TEL", "NICKNAME", "X-NONE", "fn"):
        out.append((R.pf(name), "presence"))
        out.append((R.pf(name, not_defined=True), "is-not-defined"))
    for (needle, pos) in FN_NEEDLES:
        for mt in MATCH_TYPES:
            for coll in COLLS:
                for neg in (False, True):
                    out.append((R.pf("FN", text=(needle, mt, coll, neg)), "text-match:%s:%s:%s%s" % (pos, mt or "default", coll or "default", ":negated" if neg else "")))
    for (needle, mt) in [("example.com", "ends-with"), ("EXAMPLE", "contains"), ("work@", "starts-with"), ("home@example.org", "equals")]:
        for neg in (False, True):
            out.append((R.pf("EMAIL", text=(needle, mt, None, neg)), "text-match-multivalue:%s%s" % (mt, ":negated" if neg else "")))
    out.append((R.pf("NICKNAME", text=("日本", "equals", "i;unicode-casemap", False)), "text-match:non-ascii-whole:equals:i;unicode-casemap"))
    out.append((R.pf("NICKNAME", text=("日", "contains", None, False)), "text-match:non-ascii-infix:contains:default"))
    for pn in ("TYPE", "X-NONE"):
        out.append((R.pf("EMAIL", param=(pn, False, None)), "param-presence"))
        out.append((R.pf("EMAIL", param=(pn, True, None)), "param-is-not-defined"))
        out.append((R.pf("TEL", param=(pn, False, None)), "param-presence"))
    for (needle, mt) in [("HOME", "equals"), ("home", "equals"), ("WOR", "starts-with"), ("OICE", "ends-with"), ("zzz", "contains")]:
        for neg in (False, True):
            out.append((R.pf("EMAIL", param=("TYPE", False, (needle, mt, None, neg))), "param-text-match:%s%s" % (mt, ":negated" if neg else "")))
            out.append((R.pf("TEL", param=("TYPE", False, (needle, mt, None, neg))), "param-text-match:%s%s" % (mt, ":negated" if neg else "")))
    # two conditions in one prop-filter joined with test="allof": both must hold for the SAME property instance
    # (multi.vcf has EMAIL;TYPE=WORK:work@example.com and EMAIL;TYPE=HOME:home@example.org)
    for (ptype, needle, mt) in [("WORK", "work@", "starts-with"), ("HOME", "work@", "starts-with"), ("WORK", "example.org", "ends-with"), ("HOME", "example.org", "ends-with"), ("HOME", "juergen", "contains"), ("WORK", "zzz", "contains")]:
        for neg in (False, True):
            out.append((R.pf("EMAIL", text=(needle, mt, None, neg), param=("TYPE", False, (ptype, "equals", None, False)), test="allof"), "allof-text+param-same-instance%s" % (":negated" if neg else "")))
    out.append((R.pf("EMAIL", text=("example", "contains", None, False), param=("TYPE", True, None), test="allof"), "allof-text+param-not-defined"))
    out.append((R.pf("TEL", text=("555", "contains", None, False), param=("TYPE", False, ("VOICE", "equals", None, False)), test="allof"), "allof-text+param-same-instance"))
    return out


def all_filters(tier):
    singles = single_filters()
    out = []
    for (p, cls) in singles:
        out.append((R.filt(None, [p]), cls, None))
    out.append((R.filt(None, []), "empty-filter", None))
    # two prop-filters under anyof / allof
    pick = [s for s in singles if s[1] in ("presence", "is-not-defined") or s[1].startswith("text-match:prefix:starts-with:default") or s[1].startswith("text-match:absent:contains:default") or s[1].startswith("param-presence")]
    if tier == "quick":
        pick = pick[:10]
    for (a, ca), (b, cb) in itertools.combinations(pick, 2):
        for test in ("anyof", "allof", None):
            out.append((R.filt(test, [a, b]), "two:%s" % (test or "default-test"), None))
    # nresults
    for n in (0, 1, 2, 10):
        out.append((R.filt(None, [R.pf("FN")]), "limit", n))
        out.append((R.filt(None, [R.pf("EMAIL")]), "limit", n))
    return out


def _worker(args):
    cfg, jobs = args
    vios = {}
    stats = {"queries": 0, "pairs": 0, "nontrivial": 0, "undecided": 0, "errors": 0, "requests": 0}

    def vio(what, summary, detail):
        sig = "C12|%s" % what
        e = vios.get(sig)
        if e is None:
            vios[sig] = {"summary": summary, "witness": dict(detail, config=cfg.label), "count": 1}
        else:
            e["count"] += 1

    s = DavSys(cfg)
    try:
        s.replay([])
        stored = {}
        for name, body in CARDS.items():
            r = s.req("PUT", s.url("ab", name), {"Content-Type": B.CT_VCF}, body)
            if dav.effective_status(r) not in (200, 201, 204):
                vio("card-refused:%s" % name, "grid card refused with %s" % dav.effective_status(r), {"body": body})
                continue
            stored[name] = s.req("GET", s.url("ab", name)).body
        for phase in ("", "after-delete-and-recreate:"):
            if phase:
                # every name is deleted and created again with ANOTHER card's content: nothing may remember the old card
                names_ = sorted(stored)
                for n_ in names_:
                    s.req("DELETE", s.url("ab", n_))
                bodies_ = [CARDS[n_] for n_ in names_]
                stored = {}
                for n_, b_ in zip(names_, bodies_[1:] + bodies_[:1]):
                    r_ = s.req("PUT", s.url("ab", n_), {"Content-Type": B.CT_VCF}, b_)
                    if dav.effective_status(r_) in (200, 201, 204):
                        # the truth is what was uploaded (vCards are stored byte for byte), not what GET says now
                        stored[n_] = b_
                        g_ = s.req("GET", s.url("ab", n_))
                        if g_.status != 200 or g_.body != b_:
                            vio("after-delete-and-recreate:get-serves-old-card", "after DELETE and a new PUT of %s, GET does not serve the new card" % n_, {"name": n_})
            pj = jobs if not phase else jobs[::3]
            for (f, cls0, limit) in pj:
                cls = phase + cls0
                fxml = R.to_xml(f)
                r = s.req("REPORT", s.url("ab"), dict(dav.XML_CT, Depth="1"), dav.abquery_body(fxml, [dav.P_GETETAG, dav.P_ADDRDATA], limit=limit))
                stats["queries"] += 1
                if r.status != 207:
                    stats["errors"] += 1
                    nonascii = any(ord(ch) > 127 for ch in fxml)
                    vio("query-fails:%s:%s" % (cls, r.status), "addressbook-query answered %s %s" % (r.status, (r.exc or "")[:160]), {"filter": fxml, "non_ascii_in_filter": nonascii})
                    continue
                ms = dav.parse_multistatus(r.body)
                got = {}
                for x in ms.responses:
                    nm = urllib.parse.unquote(posixpath.basename((x.href or "").rstrip("/")))
                    got[nm] = x
                exp = {}
                for name, body in stored.items():
                    a = R.matches(f, body, "i;unicode-casemap")
                    b = R.matches(f, body, "i;ascii-casemap")
                    exp[name] = a if a == b else None  # the default collation decides: RFC says unicode-casemap, xandikos documents ascii-casemap
                members = {n: x for n, x in got.items() if n in stored}
                extra = set(got) - set(stored) - {"addressbook", ""}
                if extra:
                    vio("unknown-href-in-result", "hrefs that are not cards of this address book: %s" % sorted(extra), {"filter": fxml})
                if limit is not None:
                    want = [n for n, e in exp.items() if e]
                    if len(members) != min(limit, len(want)):
                        vio("limit:%d-results-for-nresults-%d-of-%d" % (len(members), limit, len(want)), "nresults=%d, %d cards match, %d responses" % (limit, len(want), len(members)), {"filter": fxml})
                    if not set(members) <= set(want):
                        vio("limit:non-matching-card-returned", "a card that does not match was returned under a limit", {"filter": fxml})
                    continue
                nm_match = 0
                for name in stored:
                    e = exp[name]
                    if e is None:
                        stats["undecided"] += 1
                        continue
                    stats["pairs"] += 1
                    if e:
                        nm_match += 1
                    isin = name in members
                    if isin != e:
                        direction = "returned-but-does-not-match" if isin else "matches-but-not-returned"
                        vio("%s:%s:%s" % (cls, name.replace(".vcf", ""), direction), "filter class %s, card %s: %s" % (cls, name, direction), {"filter": fxml, "card": stored[name]})
                    elif isin:
                        d = members[name].prop_text(dav.P_ADDRDATA)
                        if d is None or nl(d.encode("utf-8")) != nl(stored[name]):
                            vio("address-data-differs", "address-data is not the stored card", {"filter": fxml, "card": name})
                if 0 < nm_match < len(stored):
                    stats["nontrivial"] += 1
        stats["requests"] = s.nreq
    finally:
        s.close()
    return vios, stats


def run(tier, workers=None):
    rep = Reporter("C12", tier)
    nw = workers or 16
    names = {"cal": [], "ab": [], "c2": []}
    cfgs = [Config(front="wsgi", backend="tree", prefix="/", names=names, features=set())]
    if tier == "thorough":
        cfgs.append(Config(front="aio", backend="bare", prefix="/dav/", names=names, features=set()))
    filters = all_filters(tier)
    jobs = []
    for cfg in cfgs:
        for i in range(nw):
            ch = filters[i::nw]
            if ch:
                jobs.append((cfg, ch))
    ctx = mp.get_context("fork")
    with ctx.Pool(nw) as pool:
        results = pool.map(_worker, jobs, chunksize=1)
    tot = {"queries": 0, "pairs": 0, "nontrivial": 0, "undecided": 0, "errors": 0, "requests": 0}
    for vios, stats in results:
        rep.merge(vios)
        for k in tot:
            tot[k] += stats[k]
    cov = {
        "evaluations": tot["pairs"],
        "distinct_nontrivial": tot["nontrivial"],
        "rule": "one evaluation = one (filter, card) pair; a filter is non-trivial when it matches some but not all of the 5 cards (counted per filter per configuration)",
        "samples": [R.to_xml(f) for (f, c, l) in filters[:2]] + [R.to_xml(filters[len(filters) // 2][0])],
        "filters": len(filters), "cards": len(CARDS), "queries": tot["queries"], "queries_answered_with_error": tot["errors"],
        "pairs_left_undecided_by_default_collation": tot["undecided"],
        "requests_executed": tot["requests"], "configs": [c.label for c in cfgs], "exhaustive": True,
    }
    from . import sizes

    cov.update(sizes.run_sweep(rep, "C12", ['addressbook-query']))
    return rep.finish("exploration", cov, assumptions=[
        "size sweep: the collection is grown member by member to 140 and the same view is checked at every size up to 8 and around 16, 32, 64, 100 and 128",
        "text is matched against the unescaped property value / each parameter value; property and parameter names are case-insensitive",
        "when no collation is given the RFC default (i;unicode-casemap) and xandikos' documented default (i;ascii-casemap) are both evaluated; pairs on which they differ are not judged",
        "a prop-filter with two conditions is only generated with test=\"allof\" (both must hold for the same property instance); the default anyof join of two conditions is not generated (xandikos always ANDs)",
    ])
