"""Shared driver for the E1 (explicit-state) checks C01, C02, C08, C09."""

import json

from ..core import davsys, explore
from ..core.report import Reporter


def cross_history_etag(rep, prop, observations):
    """Across ALL states of ALL histories: etag <-> served bytes is a bijection (per back-end scheme)."""
    by_etag = {}
    by_body = {}
    for o in observations:
        if o[0] != "etag":
            continue
        _, label, et, bodyhash = o
        scheme = label.split("/")[0]
        by_etag.setdefault((scheme, et), set()).add(bodyhash)
        by_body.setdefault((scheme, bodyhash), set()).add(et)
    # git blob ids: if the ETags of a back end are blob ids of the served bytes at all, they are so everywhere
    blob = {}
    for o in observations:
        if o[0] == "blobid":
            blob.setdefault(o[1].split("/")[0], []).append(o)
    for scheme, obs_ in blob.items():
        good = sum(1 for o in obs_ if o[2])
        bad = [o for o in obs_ if not o[2]]
        if good and bad:
            rep.violation("%s|%s|etag-not-git-blob-id" % (prop, scheme), "%d of %d observed ETags are not the git blob id of the bytes served with them (the others are)" % (len(bad), len(obs_)), {"etag": bad[0][3], "name": bad[0][4], "history_tail": bad[0][5]})
    for (scheme, et), bs in by_etag.items():
        if len(bs) > 1:
            rep.violation("%s|%s|same-etag-different-bytes" % (prop, scheme), "one ETag was observed with %d different bodies" % len(bs), {"etag": et, "bodies": sorted(bs)})
    for (scheme, b), es in by_body.items():
        if len(es) > 1:
            rep.violation("%s|%s|same-bytes-different-etags" % (prop, scheme), "identical served bytes were observed with %d different ETags" % len(es), {"body": b, "etags": sorted(es)})
    return len(by_etag)


def cross_history_tags(rep, prop, observations):
    by_tag = {}
    by_state = {}
    for o in observations:
        if o[0] != "tag":
            continue
        _, label, _c, tag, state, meta, rtype = o
        if "+cfgmeta" in label.split("|")[0]:
            meta = ()
            rtype = None
        by_tag.setdefault((label, tag), set()).add((state, meta, rtype))
        if any(str(nm).startswith("gen:") for nm, _h in state):
            continue  # POST picks random member names: equal abstract states are different contents, nothing to compare
        # _c is "*" where every collection keeps its metadata in the tree (contents alone decide the tag); with metadata in
        # .git/config only observations of the same collection are comparable (MKCALENDAR-made ones do carry a metadata file)
        by_state.setdefault((label, _c, state, meta, rtype), set()).add(tag)
    for (label, tag), sts in by_tag.items():
        if len(sts) > 1:
            rep.violation("%s|%s|equal-tags-different-contents" % (prop, label), "one collection tag was observed for %d different collection states" % len(sts), {"tag": tag, "states": sorted(sts, key=repr)[:3]})
    for (label, _c, state, meta, rtype), tags in by_state.items():
        if len(tags) > 1:
            rep.violation("%s|%s|equal-contents-different-tags" % (prop, label), "equal collection contents were observed with %d different tags (git tags are content-derived)" % len(tags), {"state": state, "meta": meta, "tags": sorted(tags)})
    return len(by_tag)


def _fault_job(args):
    """All fault points k of one (config, history, op): the k-th mutating file-system call of the request fails with ENOSPC."""
    cfg, hist, op, maxk = args
    vios = {}
    stats = {"cases": 0, "failed_requests": 0, "succeeded_despite_fault": 0, "requests": 0, "points": 0}
    for k in range(maxk):
        s = davsys.DavSys(cfg)
        try:
            s.replay(hist)
            info = s.apply(("fault", k, tuple(op)), check=True)
            f = info.get("fault") or {}
            explore._merge_vios(vios, s.take_violations())
            stats["requests"] += s.take_request_count()
            if f.get("fired") is None:
                stats["points"] = f.get("mutating_calls", k)
                break
            stats["cases"] += 1
            if info.get("success"):
                stats["succeeded_despite_fault"] += 1
            else:
                stats["failed_requests"] += 1
            # the collection must stay usable: the same request without a fault afterwards is answered, and the audit follows the model
            info2 = s.apply(tuple(op), check=True)
            explore._merge_vios(vios, s.take_violations())
            if info2.get("status") in (423, 500, 0, None) and not info2.get("success"):
                # noted in the evidence, not judged: I/O faults are outside the properties' quantifiers, and only the
                # property's own observable-state oracles are applied to fault-injected requests
                stats["followup_refused"] = stats.get("followup_refused", 0) + 1
        finally:
            s.close()
    return vios, stats


def fault_phase(prop, rep, cfgs, histories, ops, workers=None, maxk=60):
    """Environment deviations on top of E1 states: every single ENOSPC placement in every write of the menu."""
    import multiprocessing as mp

    jobs = [(cfg, list(h), list(op), maxk) for cfg in cfgs if not hasattr(cfg, "make") and cfg.front in ("wsgi", "aio") for h in histories for op in ops]
    if not jobs:
        return {}
    ctx = mp.get_context("fork")
    with ctx.Pool(workers or 16) as pool:
        results = pool.map(_fault_job, jobs, chunksize=1)
    tot = {"cases": 0, "failed_requests": 0, "succeeded_despite_fault": 0, "requests": 0, "followup_refused": 0}
    for vios, stats in results:
        stats.setdefault("followup_refused", 0)
        for sig, e in vios.items():
            if sig.startswith(prop + "|"):
                rep.violation(sig.replace("|", "|fault-injected|", 1) if False else sig, e["summary"], e["witness"])
        for k in tot:
            tot[k] += stats[k]
    return {"fault_injection": {"single_ENOSPC_placements_executed": tot["cases"], "requests_that_failed": tot["failed_requests"], "requests_that_still_succeeded": tot["succeeded_despite_fault"], "same_request_refused_when_repeated_without_fault (not judged)": tot["followup_refused"], "jobs": len(jobs)}}


class StoreCfg:
    """A store-level (Store API) exploration configuration."""

    def __init__(self, label=None, **kw):
        from ..core import storesys

        self.kw = kw
        self.label = label or "store:" + "+".join(kw.get("kinds", storesys.BACKENDS))

    def make(self):
        from ..core import storesys

        return storesys.StoreSys(label=self.label, **self.kw)


def _explore_child(conn, plan, workers):
    cfg, depth, max_states, budget, seed_h = plan
    try:
        factory = cfg.make if hasattr(cfg, "make") else (lambda cfg=cfg: davsys.DavSys(cfg))
        res = explore.explore(factory, max_depth=depth, workers=workers, max_states=max_states, seed_histories=seed_h, budget_s=budget)
        res.state_hists = {}
        conn.send(res)
    except BaseException as e:  # noqa: BLE001 - reported by the parent as a harness error
        import traceback

        r = explore.Result()
        r.errors.append("exploration of %s died: %s\n%s" % (getattr(cfg, "label", cfg), e, traceback.format_exc()))
        r.histories = [[], []]
        conn.send(r)
    finally:
        conn.close()


def _explore_all(plans, workers):
    """Explore the configurations, a few at a time, each in its own child process with its own worker pool.

    The early BFS levels of a configuration are narrow (1, then ~10-40 states) and leave most cores idle; running
    several configurations side by side fills them.  XV_SEQ=1 restores one-after-the-other exploration in this process.
    """
    import multiprocessing as mp
    import os

    total = workers or 16
    if os.environ.get("XV_SEQ") or len(plans) <= 1:
        out = []
        for (cfg, depth, max_states, budget, seed_h) in plans:
            factory = cfg.make if hasattr(cfg, "make") else (lambda cfg=cfg: davsys.DavSys(cfg))
            out.append(explore.explore(factory, max_depth=depth, workers=total, max_states=max_states, seed_histories=seed_h, budget_s=budget))
        return out
    width = min(3, len(plans))
    per = max(4, (total + width - 1) // width + 2)
    ctx = mp.get_context("fork")
    results = [None] * len(plans)
    running = {}
    nxt = 0
    while nxt < len(plans) or running:
        while nxt < len(plans) and len(running) < width:
            a, b = ctx.Pipe(duplex=False)
            pr = ctx.Process(target=_explore_child, args=(b, plans[nxt], per))
            pr.start()
            b.close()
            running[nxt] = (pr, a)
            nxt += 1
        import multiprocessing.connection as mpc

        ready = mpc.wait([c for (_p, c) in running.values()])
        for i in list(running):
            pr, c = running[i]
            if c in ready:
                try:
                    results[i] = c.recv()
                except EOFError:
                    r = explore.Result()
                    r.errors.append("exploration child for %s exited without a result" % getattr(plans[i][0], "label", i))
                    r.histories = [[], []]
                    results[i] = r
                c.close()
                pr.join()
                del running[i]
    return results


def run_configs(prop, tier, configs, depth_of, workers=None, level="model_checking", assumptions=None, rule=None, post=None, min_success=1, faults=None, seeds=None, extra=None):
    """Explore every config; collect violations of `prop` only."""
    rep = Reporter(prop, tier)
    tot = {"states": 0, "transitions": 0, "replays": 0, "requests": 0, "successes": 0}
    per_cfg = []
    all_obs = []
    samples = []
    outcomes = {}
    caps = []
    fix_all = True
    plans = []
    for cfg in configs:
        dd = depth_of(cfg)
        depth, max_states = dd[0], dd[1]
        # thorough runs are bounded in wall time per configuration (reported as a cap); quick runs only by depth
        # (configurations run three at a time on a third of the cores each, hence 200 s rather than a third of that)
        budget = dd[2] if len(dd) > 2 else (None if tier == "quick" else 200)
        seed_h = seeds(cfg) if seeds else ()
        plans.append((cfg, depth, max_states, budget, seed_h))
    results = _explore_all(plans, workers)
    for (cfg, depth, max_states, budget, seed_h), res in zip(plans, results):
        for e in res.errors:
            rep.harness_error(e[:2000])
        for sig, e in res.violations.items():
            if sig.startswith(prop + "|"):
                rep.violation(sig, e["summary"], e["witness"])
        all_obs.extend(res.observations)
        for k in tot:
            tot[k] += getattr(res, k)
        for oc, n in res.outcomes.items():
            outcomes[oc] = outcomes.get(oc, 0) + n
        per_cfg.append({"config": cfg.label, "seeded_start_states": len(seed_h), "states": res.states, "transitions": res.transitions, "max_depth": res.max_depth,
                        "fixpoint": res.fixpoint, "caps": res.caps, "levels": res.levels, "successful_writes": res.successes})
        if not res.fixpoint:
            fix_all = False
        caps.extend("%s: %s" % (cfg.label, c) for c in res.caps)
        samples.append({"config": cfg.label, "shortest": res.histories[0], "longest": res.histories[-1]})
        if res.successes < min_success:
            rep.violation("%s|%s|no-write-ever-succeeded" % (prop, cfg.label), "prerequisite probe: no write was acknowledged in the whole exploration (%d transitions) - nothing can be decided" % res.transitions, {"outcomes": res.outcomes})
    extra_cov = {}
    if post:
        extra_cov = post(rep, all_obs) or {}
    if extra:
        extra_cov.update(extra(rep) or {})
    if faults:
        fc = fault_phase(prop, rep, faults.get("configs", configs), faults["histories"], faults["ops"], workers=workers)
        extra_cov.update(fc)
        n = fc.get("fault_injection", {}).get("single_ENOSPC_placements_executed", 0)
        tot["transitions"] += n
        tot["replays"] += n
    cov = {
        "states": tot["states"],
        "transitions": tot["transitions"],
        "traces_validated_against_impl": tot["replays"],
        "samples": samples,
        "requests_executed": tot["requests"],
        "successful_writes": tot["successes"],
        "distinct_outcomes": len(outcomes),
        "outcomes": outcomes,
        "per_config": per_cfg,
        "fixpoint_reached_everywhere": fix_all,
        "caps_hit": caps,
        "exhaustive": fix_all,
        "rule": rule or "breadth-first over the request alphabet; a state is (abstract contents, generic dump of store caches); every transition executed on the real server and audited",
    }
    cov.update(extra_cov)
    return rep.finish(level, cov, assumptions=assumptions or [])


def replay_witness(prop, path, configs_fn):
    """bin/xv Cnn --replay <file>: re-execute the recorded history on the real code and report whether the signature recurs.

    E1 witnesses carry (config label, history); store-level ones (backend, history).  Anything else falls back to
    re-running the quick tier of the check and looking for the signature.
    """
    import json
    import multiprocessing as mp

    d = json.load(open(path))
    sig = d.get("signature", "")
    w = d.get("witness", {})
    print("replaying %s" % sig)
    print("summary: %s" % d.get("summary"))
    hist = w.get("history")
    if hist is not None and (w.get("config") or w.get("backend")):
        hist = [tuple(tuple(x) if isinstance(x, list) else x for x in op) for op in hist]
        target = None
        for tier in ("quick", "thorough"):
            for cfg in configs_fn(tier):
                if getattr(cfg, "label", None) == w.get("config"):
                    target = cfg
        if target is None and w.get("backend"):
            target = StoreCfg(kinds=(w["backend"],), oracles={prop}, features={"restart", "etagargs"})
        if target is not None:
            with mp.get_context("fork").Pool(1) as pool:
                got = pool.apply(_replay_job, (target, hist, prop))
            for s_, e in got.items():
                print("  reproduced: %s -- %s" % (s_, e["summary"]))
            hit = any(s_ == sig or s_.split("|")[-1] == sig.split("|")[-1] for s_ in got)
            print("REPRODUCED" if hit else "NOT REPRODUCED (the history now satisfies the oracle)")
            return 1 if hit else 0
    print("no replayable history in this witness; re-running the quick tier and looking for the signature")
    return None


def _replay_job(cfg, hist, prop):
    s = cfg.make() if hasattr(cfg, "make") else davsys.DavSys(cfg)
    try:
        if hasattr(cfg, "oracles"):
            cfg.oracles = set(cfg.oracles) | {prop}
        s.replay(hist[:-1])
        s.apply(hist[-1], check=True)
        return {k: v for k, v in s.take_violations().items() if k.startswith(prop + "|")}
    finally:
        s.close()
