"""C17 - multiget returns, for each requested href, the current resource or 404.

E1 x E2: a small breadth-first exploration (2 names, create/replace/delete)
collects the reachable states; at every state every href list up to the bound
over 14 href kinds is sent as calendar-multiget and addressbook-multiget.
"""

import itertools
import multiprocessing as mp
import posixpath
import urllib.parse

from ..core import dav, davsys, explore
from ..core.davsys import Config, DavSys, nl, sha
from ..core.report import Reporter

KINDS = ["a", "b", "ghost", "pct-a", "dslash-a", "abs-a", "abs-other-host-a", "ab-member", "collection", "outside-prefix-a", "confusable-prefix-a", "glued-prefix-a", "empty", "pct-slash-a",
         "missing-coll-a", "missing-coll-b", "item-as-parent-a", "item-as-parent-b", "control-dir-a", "trailing-space-a", "trailing-newline-a", "leading-space-a"]
# the kinds whose parent is not a collection, together with the real members: all triples of these are always enumerated
FOCUS = ["a", "b", "missing-coll-a", "missing-coll-b", "item-as-parent-a", "item-as-parent-b"]


def hrefs_for(s, cfg):
    p = cfg.prefix.rstrip("/")
    base = p + davsys.COLL_PATHS["cal"]
    out = {
        "a": base + "a.ics",
        "b": base + "b.ics",
        "ghost": base + "never.ics",
        "pct-a": base + "%61.ics",
        "dslash-a": p + "/user/calendars//calendar/a.ics",
        "abs-a": "http://localhost" + base + "a.ics",
        "abs-other-host-a": "http://other.example" + base + "a.ics",
        "ab-member": p + davsys.COLL_PATHS["ab"] + "a.vcf",
        "collection": base,
        "outside-prefix-a": davsys.COLL_PATHS["cal"] + "a.ics" if p else None,
        "confusable-prefix-a": (p + "x" + davsys.COLL_PATHS["cal"] + "a.ics") if p else None,
        "glued-prefix-a": (p + davsys.COLL_PATHS["cal"].lstrip("/") + "a.ics") if p else None,
        "empty": "",
        "pct-slash-a": p + "/user/calendars/calendar%2Fa.ics",
        "missing-coll-a": p + "/user/calendars/nope/a.ics",
        "missing-coll-b": p + "/user/calendars/nope/b.ics",
        "item-as-parent-a": base + "a.ics/a.ics",
        "item-as-parent-b": base + "a.ics/b.ics",
        # the repository's control directory taken as a parent collection
        "control-dir-a": base + ".git/a.ics",
        # encoded white space at an edge of the path: another (never existing) name, not a.ics
        "trailing-space-a": base + "a.ics%20",
        "trailing-newline-a": base + "a.ics%0A",
        "leading-space-a": "%20" + base + "a.ics",
    }
    return {k: v for k, v in out.items() if v is not None}


def norm(href):
    """Two hrefs are the same iff equal after dropping scheme/authority and percent-decoding."""
    u = urllib.parse.urlsplit(href)
    return urllib.parse.unquote(u.path)


def expected_target(kind):
    """Which resource (if any) a kind addresses: ('cal','a.ics') / ('ab','a.vcf') / None."""
    if kind in ("a", "pct-a", "abs-a", "abs-other-host-a", "pct-slash-a"):
        return ("cal", "a.ics")
    if kind == "b":
        return ("cal", "b.ics")
    if kind == "ab-member":
        return ("ab", "a.vcf")
    return None


def _state_group(args):
    cfg, hist, maxlen = args
    vios = {}
    stats = {"lists": 0, "responses": 0, "with_data": 0, "notfound": 0, "requests": 0, "outcomes": set()}

    def vio(what, summary, detail):
        sig = "C17|%s|%s" % (cfg.label, what)
        e = vios.get(sig)
        if e is None:
            vios[sig] = {"summary": summary, "witness": {"config": cfg.label, "history": [list(h) for h in hist], "detail": detail}, "count": 1}
        else:
            e["count"] += 1

    s = DavSys(cfg)
    try:
        s.replay(hist)
        a0 = s.last_audit
        hrefs = hrefs_for(s, cfg)
        kinds = [k for k in KINDS if k in hrefs]

        def run(report, klist, depth="1"):
            dataprop = dav.P_CALDATA if report == "calendar" else dav.P_ADDRDATA
            coll = "cal" if report == "calendar" else "ab"
            r = s.req("REPORT", s.url(coll), dict(dav.XML_CT, Depth=depth) if depth is not None else dict(dav.XML_CT), dav.multiget_body(report, [hrefs[k] for k in klist], [dav.P_GETETAG, dataprop]))
            if r.status != 207:
                return r.status, None
            ms = dav.parse_multistatus(r.body)
            if ms.parse_error:
                return "unparseable", None
            res = {}
            for x in ms.responses:
                key = norm(x.href or "")
                data = x.prop_text(dataprop)
                ent = (x.status if x.status is not None else 200, x.prop_text(dav.P_GETETAG), sha(nl(data.encode("utf-8"))) if data is not None else None, x.prop_status(dataprop))
                res.setdefault(key, []).append(ent)
            return 207, res

        # which hrefs address an existing resource: GET the href as sent, through the same front end
        gettable = {}
        for k in kinds:
            if k == "empty":
                continue
            u = urllib.parse.urlsplit(hrefs[k])
            g = s.req("GET", u.path)
            if g.status == 200:
                gettable[k] = (g.headers.get("etag"), sha(nl(g.body)), (g.headers.get("content-type") or "").split(";")[0].strip())
        alone = {}
        for report in ("calendar", "addressbook"):
            for k in kinds:
                alone[(report, k)] = run(report, [k])
        # the Depth header is not part of a multiget (RFC 4791 7.9 / RFC 6352 8.7): the answer for an href must not depend on it
        for report in ("calendar", "addressbook"):
            for k in kinds:
                for dv in (None, "0", "infinity"):
                    other = run(report, [k], depth=dv)
                    if other != alone[(report, k)]:
                        vio("answer-depends-on-depth-header:%s:%s" % (report, dv or "absent"), "href kind %s gets %s with Depth %s and %s with Depth 1" % (k, other, dv or "(no header)", alone[(report, k)]), {"report": report, "kind": k, "href": hrefs[k], "depth": dv})
                        break
        lists = []
        for n in range(1, maxlen + 1):
            lists.extend(itertools.product(kinds, repeat=n))
        if maxlen < 3:
            lists.extend(itertools.product([k for k in FOCUS if k in kinds], repeat=3))
        for report in ("calendar", "addressbook"):
            dataprop_kind = "text/calendar" if report == "calendar" else "text/vcard"
            for klist in lists:
                stats["lists"] += 1
                st, res = run(report, list(klist)) if len(klist) > 1 else alone[(report, klist[0])]
                case = {"report": report, "hrefs": [hrefs[k] for k in klist], "kinds": list(klist)}
                if st != 207:
                    vio("report-failed:%s:%s" % (report, st), "multiget answered %s" % st, case)
                    continue
                wanted = {}
                for k in klist:
                    if k == "empty":
                        continue
                    wanted.setdefault(norm(hrefs[k]), []).append(k)
                for key, ks in wanted.items():
                    ents = res.get(key, [])
                    if len(ents) != 1:
                        vio("response-count:%s:%d" % ("missing" if not ents else "duplicate", len(ents)), "href %r (kinds %s) got %d responses, expected exactly one" % (key, ks, len(ents)), case)
                        continue
                    (rst, etag, datahash, datast) = ents[0]
                    stats["responses"] += 1
                    live = gettable.get(ks[0])
                    right_kind = live is not None and live[2] == dataprop_kind
                    stats["outcomes"].add((report, ks[0], rst, datast, live is not None))
                    if live is not None and right_kind and ks[0] not in ("abs-other-host-a",):
                        if rst != 200 or etag != live[0] or datahash != live[1]:
                            vio("existing-not-served:%s:%s" % (report, ks[0]), "href %s addresses an existing %s but the response is status=%s etag=%s (GET etag %s), data %s" % (ks[0], dataprop_kind, rst, etag, live[0], "equal" if datahash == live[1] else "differs/missing"), case)
                        else:
                            stats["with_data"] += 1
                    elif live is not None and right_kind:
                        # lenient kinds: may be served (path-only resolution) or 404, but if served it must be the right data
                        if datahash is not None and (etag != live[0] or datahash != live[1]):
                            vio("wrong-data:%s:%s" % (report, ks[0]), "served data/etag differ from GET", case)
                    else:
                        if datahash is not None:
                            vio("data-for-nonexistent:%s:%s" % (report, ks[0]), "href kind %s does not address an existing resource of the right kind but data was returned" % ks[0], case)
                        elif rst == 200 and datast == 200:
                            vio("data-status-200-without-data:%s" % ks[0], "data property reported 200 for a non-resource", case)
                        elif rst not in (200, 404) or (rst == 200 and datast not in (404, None)):
                            vio("unexpected-status:%s:%s:%s" % (report, ks[0], rst), "status %s / data status %s" % (rst, datast), case)
                        else:
                            stats["notfound"] += 1
                    # independence: same answer as when requested alone
                    if len(klist) > 1:
                        ast, ares = alone[(report, ks[0])]
                        if ast == 207 and ares.get(key, [None])[0] != ents[0]:
                            vio("depends-on-companions:%s" % ks[0], "the response for %s differs from the one it gets when requested alone" % ks[0], case)
                extra = set(res) - set(wanted)
                extra = {e for e in extra if not ("empty" in klist and e in ("None", "", "/None"))}
                if extra:
                    vio("unrequested-response", "responses for hrefs that were not requested: %s" % sorted(extra), case)
        if DavSys.observable(s.audit()["cal"]) != DavSys.observable(a0["cal"]):
            vio("report-changed-state", "multiget reports changed the collection", {})
        stats["requests"] = s.nreq
    finally:
        s.close()
    stats["outcomes"] = sorted(stats["outcomes"], key=repr)
    return vios, stats


def run(tier, workers=None):
    rep = Reporter("C17", tier)
    names = {"cal": ["a.ics", "b.ics"], "ab": ["a.vcf"], "c2": []}
    bodies = {"cal": ["X", "X2", "ZE"], "ab": ["KE"], "c2": []}  # ZE / KE carry characters outside the Basic Multilingual Plane
    cfgs = [
        Config(front="wsgi", backend="tree", prefix="/dav/", names=names, bodies=bodies, features=set()),
        Config(front="aio", backend="tree", prefix="/", names=names, bodies=bodies, features=set()),
        # a route prefix made of the same characters as the first path segment below it (/user/user/calendars/...)
        Config(front="wsgi", backend="tree", prefix="/user/", names=names, bodies=bodies, features=set()),
    ]
    if tier == "thorough":
        cfgs += [
            Config(front="aio", backend="bare", prefix="/dav/", names=names, bodies=bodies, features=set()),
            Config(front="wsgi", backend="bare", prefix="/", names=names, bodies=bodies, features=set()),
        ]
    maxlen = 2 if tier == "quick" else 3
    depth = 2 if tier == "quick" else 3
    jobs = []
    e1 = {"states": 0, "transitions": 0, "replays": 0}
    for cfg in cfgs:
        res = explore.explore(lambda cfg=cfg: DavSys(cfg), max_depth=depth, workers=workers, keep_hist=True, budget_s=None if tier == "quick" else 120)
        for e in res.errors:
            rep.harness_error(e[:1500])
        e1["states"] += res.states
        e1["transitions"] += res.transitions
        e1["replays"] += res.replays
        # one representative history per abstract model state (the cache fingerprint is irrelevant for reads only after an audit)
        by_model = {}
        for key, h in res.state_hists.items():
            by_model.setdefault(key[0], h)
        hs = sorted(by_model.values(), key=lambda h: (len(h), repr(h)))
        if tier == "quick":
            hs = hs[:12]
        for h in hs:
            jobs.append((cfg, list(h), maxlen))
    ctx = mp.get_context("fork")
    with ctx.Pool(workers or 16) as pool:
        results = pool.map(_state_group, jobs, chunksize=1)
    tot = {"lists": 0, "responses": 0, "with_data": 0, "notfound": 0, "requests": 0}
    outcomes = set()
    for vios, stats in results:
        rep.merge(vios)
        for k in tot:
            tot[k] += stats[k]
        outcomes |= {tuple(o) for o in stats["outcomes"]}
    cov = {
        "states": e1["states"],
        "transitions": e1["transitions"] + tot["lists"],
        "traces_validated_against_impl": e1["replays"] + len(jobs),
        "states_with_href_grid": len(jobs),
        "href_lists": tot["lists"],
        "responses_checked": tot["responses"],
        "responses_with_data_equal_to_GET": tot["with_data"],
        "responses_not_found": tot["notfound"],
        "distinct_outcomes": len(outcomes),
        "samples": [list(o) for o in sorted(outcomes, key=repr)[:15]],
        "href_kinds": KINDS,
        "max_list_length": maxlen,
        "exhaustive": True,
        "rule": "all href lists of length <= %d over %d href kinds, for calendar- and addressbook-multiget, at one representative of every abstract state reached by BFS depth %d" % (maxlen, len(KINDS), depth),
    }
    from . import sizes

    cov.update(sizes.run_sweep(rep, "C17", ['multiget']))
    return rep.finish("model_checking", cov, assumptions=[
        "size sweep: the collection is grown member by member to 140 and the same view is checked at every size up to 8 and around 16, 32, 64, 100 and 128",
        "two hrefs are the same iff equal after dropping scheme/authority and percent-decoding; doubled slashes stay distinct",
        "an absolute URL with a foreign host and an href with an encoded slash may be served or answered 404 (the property does not settle them); if served the data must be right",
        "report data is compared with GET bytes modulo CRLF->LF (XML text normalisation)",
    ])
