"""C07 - sync-collection reports exactly the changes since the given token."""

from ..core.davsys import Config
from . import e1common

ASSUME = [
    "after every step of every explored history one report is issued per token issued earlier in that history, plus the empty token: all pairs (i, j>=i)",
    "expected change list = diff of the audited member->etag maps at i and j (created/changed with current etag, removed as 404, nothing else, each once)",
    "foreign tokens (zeros, other collection's token, a blob id, the HEAD commit id, non-hex, non-ASCII, URL) must get an error status; any status >= 400 is accepted",
    "every report is sent twice in a row (the answer must not depend on having been asked before); one configuration models a client holding on to a single token (only reports for the oldest token between writes)",
    "requests without DAV:limit",
]


def configs(tier):
    feats = {"sync", "foreign", "restart", "git"}
    names = {"cal": ["a.ics", "b.ics"], "ab": ["a.vcf"], "c2": []}
    bodies = {"cal": ["X", "X2", "Z"], "ab": ["K"], "c2": []}
    props = {"cal": {"displayname": ["d1"]}}
    out = [
        Config(front="wsgi", backend="tree", prefix="/", features=feats, names=names, bodies=bodies, props=props, oracles=set()),
        Config(front="aio", backend="bare", prefix="/dav/", features=feats, names=names, bodies=bodies, props=props, oracles=set()),
    ]
    out.append(Config(front="wsgi", backend="tree", prefix="/", features={"sync", "sync-held", "restart"}, names=names, bodies=bodies, props=props, oracles=set(), label="tree/wsgi+held-token"))
    if tier == "thorough":
        out += [
            Config(front="aio", backend="tree", prefix="/dav/", features=feats | {"post"}, names=names, bodies=bodies, props=props, oracles=set()),
            Config(front="wsgi", backend="bare", prefix="/", features=feats, names=names, bodies=bodies, props=props, oracles=set()),
        ]
    return out


def run(tier, workers=None):
    def depth_of(cfg):
        return (3, None) if tier == "quick" else (6, 2500)

    return e1common.run_configs("C07", tier, configs(tier), depth_of, workers=workers, assumptions=ASSUME)
