"""C07 - sync-collection reports exactly the changes since the given token."""

from ..core.davsys import Config
from . import e1common

ASSUME = [
    "size sweep: the collection is grown member by member to 140; initial and incremental reports are checked at every size up to 8 and around 16, 32, 64, 100 and 128",
    "one configuration has two workers: a second application object with its own store cache on the same directory (gunicorn workers = 2 in the repository's examples); every write is offered to either worker, and after every request both workers are audited and must show the same",
    "after every step of every explored history one report is issued per token issued earlier in that history, plus the empty token: all pairs (i, j>=i)",
    "expected change list = diff of the audited member->etag maps at i and j (created/changed with current etag, removed as 404, nothing else, each once)",
    "foreign tokens (zeros, other collection's token, a blob id, the HEAD commit id, non-hex, non-ASCII, URL) must get an error status; any status >= 400 is accepted",
    "every report is sent twice in a row (the answer must not depend on having been asked before); one configuration models a client holding on to a single token (only reports for the oldest token between writes)",
    "requests without DAV:limit",
    "the first configuration also deletes the collection and makes it again at the same URL (tokens of the earlier incarnation are forgotten by the harness, the new one starts from the empty token)",
]


def configs(tier):
    feats = {"sync", "foreign", "restart", "git"}
    names = {"cal": ["a.ics", "b.ics"], "ab": ["a.vcf"], "c2": []}
    bodies = {"cal": ["X", "X2", "Z"], "ab": ["K"], "c2": []}
    props = {"cal": {"displayname": ["d1"]}}
    out = [
        Config(front="wsgi", backend="tree", prefix="/", features=feats | {"recreate"}, names=names, bodies=bodies, props=props, oracles=set()),
        Config(front="aio", backend="bare", prefix="/dav/", features=feats, names=names, bodies=bodies, props=props, oracles=set()),
    ]
    # (this configuration also has a member whose name starts with a dot)
    out.append(Config(front="wsgi", backend="tree", prefix="/", features={"sync", "sync-held", "restart"}, names=dict(names, cal=["a.ics", ".b.ics"]), bodies=bodies, props=props, oracles=set(), label="tree/wsgi+held-token"))
    out.append(Config(front="wsgi", backend="tree", prefix="/", features={"sync", "two-workers"}, names=names, bodies={"cal": ["X", "X2"], "ab": ["K"], "c2": []}, props={}, oracles=set(), label="tree/wsgi+two-workers"))
    if tier == "thorough":
        out += [
            Config(front="aio", backend="tree", prefix="/dav/", features=feats | {"post"}, names=names, bodies=bodies, props=props, oracles=set()),
            Config(front="wsgi", backend="bare", prefix="/", features=feats, names=names, bodies=bodies, props=props, oracles=set()),
        ]
    return out


def _overlap_job(args):
    """E5: one write handled at every suspension point of a sync-collection report (single-process server).

    The client applies the report to its replica, keeps the returned token and later syncs again from it:
    the replica must then equal the collection - whatever the returned token stands for, nothing may fall between
    the change list and the token.
    """
    import os
    import posixpath
    import shutil
    import urllib.parse

    from ..core import asyncpoints, bodies as B, dav, davsys, env, http

    held, wname = args
    vios = {}
    stats = {"cases": 0, "points": 0}
    base = davsys.COLL_PATHS["cal"]
    writes = {
        "put-new": ("PUT", base + "c.ics", {"Content-Type": B.CT_ICS}, B.ALL_BODIES["T"]),
        "put-replace": ("PUT", base + "a.ics", {"Content-Type": B.CT_ICS}, B.ALL_BODIES["X2"]),
        "delete": ("DELETE", base + "b.ics", {}, b""),
    }
    props = [dav.P_GETETAG, "{DAV:}getcontentlength"]

    def sync(app, token, inject_at=None, other=None):
        (code, hd, body), oresp, n, labels = asyncpoints.run(app, ("REPORT", base, dict(dav.XML_CT, Depth="1"), dav.sync_body(token, props)), inject_at, other)
        if code != 207:
            return None, None, n, oresp
        ms = dav.parse_multistatus(body)
        ch = {}
        for x in ms.responses:
            nm = urllib.parse.unquote(posixpath.basename(x.href or ""))
            ch[nm] = None if x.status == 404 else x.prop_text(dav.P_GETETAG)
        return ch, ms.sync_token, n, oresp

    def listing(app):
        (code, hd, body), _, _, _ = asyncpoints.run(app, ("PROPFIND", base, dict(dav.XML_CT, Depth="1"), dav.propfind_body([dav.P_GETETAG])))
        ms = dav.parse_multistatus(body)
        return {urllib.parse.unquote(posixpath.basename(x.href)): x.prop_text(dav.P_GETETAG) for x in ms.responses if x.href and not x.href.endswith("/")}

    def apply(replica, ch):
        r = dict(replica)
        for n, e in ch.items():
            if e is None:
                r.pop(n, None)
            else:
                r[n] = e
        return r

    k = 0
    while True:
        root = env.fresh_dir("ov")
        os.rmdir(root)
        shutil.copytree(davsys.template_root("tree"), root, symlinks=True)
        w = http.WsgiWorld(root)
        try:
            app = w.app
            for (m, t, h, b) in (("PUT", base + "a.ics", {"Content-Type": B.CT_ICS}, B.ALL_BODIES["X"]), ("PUT", base + "b.ics", {"Content-Type": B.CT_ICS}, B.ALL_BODIES["Z"])):
                asyncpoints.run(app, (m, t, h, b))
            replica, token = {}, ""
            if held == "after-first-sync":
                ch, token, _, _ = sync(app, "")
                replica = apply({}, ch)
                asyncpoints.run(app, ("PUT", base + "d.ics", {"Content-Type": B.CT_ICS}, B.ics("uid-d", "d")))
            ch, tok1, n, oresp = sync(app, token, inject_at=k, other=writes[wname])
            stats["points"] = n
            if k >= n:
                break
            stats["cases"] += 1
            if ch is None:
                vios.setdefault("C07|overlap|report-fails:%s" % wname, {"summary": "sync-collection failed while a %s was handled at suspension point %d" % (wname, k), "witness": {"held": held, "write": wname, "point": k}, "count": 0})["count"] += 1
            else:
                replica1 = apply(replica, ch)
                ch2, tok2, _, _ = sync(app, tok1)
                truth = listing(app)
                replica2 = apply(replica1, ch2 or {})
                if ch2 is None or replica2 != truth:
                    missing = sorted(set(truth) - set(replica2))
                    stale = sorted(n_ for n_ in replica2 if replica2.get(n_) != truth.get(n_))
                    sig = "C07|overlap|replica-diverges:%s:%s" % (wname, "missing-member" if missing else "stale-member")
                    vios.setdefault(sig, {"summary": "a %s handled while the report was being built (suspension point %d of %d) is covered by the returned token but not by the change list: after the next sync the replica has %s, the collection %s" % (wname, k, n, sorted(replica2), sorted(truth)),
                                          "witness": {"held": held, "write": wname, "point": k, "write_status": oresp[0] if oresp else None}, "count": 0})["count"] += 1
        finally:
            w.close()
            shutil.rmtree(root, ignore_errors=True)
        k += 1
        if k > 40:
            break
    return vios, stats


def overlap_phase(rep, workers=None):
    import multiprocessing as mp

    jobs = [(held, wn) for held in ("empty-token", "after-first-sync") for wn in ("put-new", "put-replace", "delete")]
    with mp.get_context("fork").Pool(min(len(jobs), workers or 16)) as pool:
        results = pool.map(_overlap_job, jobs, chunksize=1)
    cases = 0
    pts = 0
    for vios, stats in results:
        rep.merge(vios)
        cases += stats["cases"]
        pts = max(pts, stats["points"])
    if cases == 0:
        rep.harness_error("overlap phase: the report has no suspension point at all (nothing was explored)")
    return {"overlap_phase": {"placements_of_a_write_inside_a_report": cases, "suspension_points_per_report": pts, "writes": ["put-new", "put-replace", "delete"]}}


def run(tier, workers=None):
    def depth_of(cfg):
        return (3, None) if tier == "quick" else (6, 2500)

    def seeds(cfg):
        # non-initial start states: a collection that had members, was deleted and made again at the same URL
        if "recreate" not in cfg.features:
            return []
        return [[("put", "cal", "a.ics", "X"), ("delcoll", "cal"), ("mkcalendar", "cal")], [("put", "cal", "a.ics", "X"), ("put", "cal", "b.ics", "Z"), ("delcoll", "cal"), ("mkcalendar", "cal"), ("put", "cal", "b.ics", "Z")]]

    return e1common.run_configs("C07", tier, configs(tier), depth_of, workers=workers, seeds=seeds, extra=lambda rep: dict(overlap_phase(rep, workers), **__import__("xv.checks.sizes", fromlist=["x"]).run_sweep(rep, "C07", ["sync"])), assumptions=ASSUME + [
        "overlap phase (E5): one write (create, replace, delete) handled to completion at every suspension point of a sync-collection report in the single-process server; replica = old replica + report + next sync must equal the collection",
    ])
